//! Start-state generators G0..G9 (DESIGN.md 3.4).  All positions are built as
//! model data, filtered for validity by the *model*, and only then handed to
//! the real code.

use crate::refmodel::*;
use crate::tape::Tape;

pub const NUM_GENERATORS: u32 = 11;
pub const GEN_NAMES: [&str; 11] =
    ["G0-standard", "G1-opening", "G2-sparse", "G3-enpassant", "G4-castling", "G5-promotion", "G6-extremal", "G7-endgame", "G8-shuffle", "G9-clocks", "G10-mate-hunt"];

fn rand_empty(t: &mut Tape, p: &Pos1, lo_rank: u8, hi_rank: u8) -> Option<u8> {
    for _ in 0..20 {
        let f = t.choose(8) as u8;
        let r = t.range(lo_rank as u32, hi_rank as u32) as u8;
        let s = sq(f, r);
        if p.sq[s as usize] == EMPTY {
            return Some(s);
        }
    }
    None
}

/// squares on a queen line through `s` (rank, file, both diagonals)
fn on_lines(s: u8) -> Vec<u8> {
    let mut v = Vec::new();
    for x in 0..64u8 {
        if x == s {
            continue;
        }
        let df = (file_of(x) as i8 - file_of(s) as i8).abs();
        let dr = (rank_of(x) as i8 - rank_of(s) as i8).abs();
        if df == 0 || dr == 0 || df == dr {
            v.push(x);
        }
    }
    v
}

/// an empty square, with probability 3/4 on a queen line through one of `focus`
fn line_square(t: &mut Tape, p: &Pos1, focus: &[u8]) -> Option<u8> {
    if !focus.is_empty() && t.choose(4) != 0 {
        for _ in 0..8 {
            let f = *t.pick(focus);
            let cands = on_lines(f);
            let s = *t.pick(&cands);
            if p.sq[s as usize] == EMPTY {
                return Some(s);
            }
        }
    }
    rand_empty(t, p, 0, 7)
}

fn place(p: &mut Pos1, s: u8, color: u8, kind: u8) -> bool {
    if p.sq[s as usize] != EMPTY {
        return false;
    }
    if kind == P && (rank_of(s) == 0 || rank_of(s) == 7) {
        return false;
    }
    p.sq[s as usize] = pc(color, kind);
    true
}

fn usable(p: &Pos1) -> bool {
    // the double-step origin square is normally required to be empty (plausibility, not part of
    // the validity list); the longest-move-list shape needs a pawn there and is recognised by
    // its ten pawns
    let pawns = p.sq.iter().filter(|&&x| x == pc(p.stm, P)).count();
    p.validity().is_ok() && !p.has_backrank_pawn() && (p.ep_origin_empty() || pawns > 8)
}

fn random_piece_kind(t: &mut Tape) -> u8 {
    // pawns and sliders more often than knights
    *t.pick(&[P, P, P, N, B, R, Q, B, R, Q])
}

fn maybe_mirror(t: &mut Tape, p: Pos1) -> Pos1 {
    if t.choose(2) == 1 {
        p.mirror()
    } else {
        p
    }
}

/// random castling rights consistent with king and rook homes
fn draw_rights(t: &mut Tape, p: &mut Pos1) {
    let spec = [(WK, 4u8, 7u8, WHITE), (WQ, 4, 0, WHITE), (BK, 60, 63, BLACK), (BQ, 60, 56, BLACK)];
    for (right, ks, rs, c) in spec {
        if p.sq[ks as usize] == pc(c, K) && p.sq[rs as usize] == pc(c, R) {
            p.cr[right] = t.choose(4) != 0;
        }
    }
}

/// random ep marker consistent with the placement (side not to move has a pawn
/// on its double-step rank with the two squares behind it empty)
fn draw_ep(t: &mut Tape, p: &mut Pos1) {
    let them = p.stm ^ 1;
    let (pawn_rank, cap_rank, origin) = if p.stm == WHITE { (4u8, 5u8, 6u8) } else { (3, 2, 1) };
    let mut files = Vec::new();
    for f in 0..8u8 {
        if p.sq[sq(f, pawn_rank) as usize] == pc(them, P)
            && p.sq[sq(f, cap_rank) as usize] == EMPTY
            && p.sq[sq(f, origin) as usize] == EMPTY
        {
            files.push(f);
        }
    }
    if !files.is_empty() && t.choose(3) != 0 {
        p.ep = Some(*t.pick(&files));
    }
}

fn draw_clocks(t: &mut Tape, p: &mut Pos1, extreme: bool) {
    if p.fmn >= 1000 && p.hmc >= 1000 {
        // the longest-text shape brings its own four-digit clocks
        return;
    }
    if extreme {
        p.hmc = *t.pick(&[0u32, 1, 49, 95, 96, 97, 98, 99, 100, 101, 150, 9990, 9999]);
        p.fmn = *t.pick(&[0u32, 1, 2, 100, 5000, 9990, 9998, 9999]);
    } else {
        p.hmc = if t.choose(4) == 0 { t.choose(100) } else { 0 };
        p.fmn = if t.choose(4) == 0 { t.choose(300) } else { 1 };
    }
    if p.ep.is_some() {
        p.hmc = 0; // a double step was the last move
    }
}

fn sparse(t: &mut Tape) -> Pos1 {
    let mut p = Pos1::empty();
    p.stm = t.choose(2) as u8;
    // kings; with some probability at home with rooks so that rights can exist
    for c in [WHITE, BLACK] {
        let home = if c == WHITE { 4u8 } else { 60 };
        if t.choose(3) == 0 {
            p.sq[home as usize] = pc(c, K);
            if t.choose(3) != 0 {
                p.sq[(home + 3) as usize] = pc(c, R);
            }
            if t.choose(3) != 0 {
                p.sq[(home - 4) as usize] = pc(c, R);
            }
        } else if let Some(s) = rand_empty(t, &p, 0, 7) {
            p.sq[s as usize] = pc(c, K);
        }
    }
    let n = t.range(0, 12);
    for _ in 0..n {
        let c = t.choose(2) as u8;
        let k = random_piece_kind(t);
        if let Some(s) = rand_empty(t, &p, 0, 7) {
            place(&mut p, s, c, k);
        }
    }
    draw_rights(t, &mut p);
    draw_ep(t, &mut p);
    p
}

fn enpassant(t: &mut Tape) -> Pos1 {
    // white to move, black pawn has just double-stepped to (f, rank 5)
    let mut p = Pos1::empty();
    p.stm = WHITE;
    let f = t.choose(8) as u8;
    let victim = sq(f, 4);
    let target = sq(f, 5);
    p.sq[victim as usize] = pc(BLACK, P);
    let mut focus = vec![victim, target];
    let mut sides: Vec<i8> = Vec::new();
    if f > 0 {
        sides.push(-1);
    }
    if f < 7 {
        sides.push(1);
    }
    let both = sides.len() == 2 && t.choose(3) == 0;
    let first = *t.pick(&sides);
    for d in sides {
        if both || d == first {
            let s = sq((f as i8 + d) as u8, 4);
            p.sq[s as usize] = pc(WHITE, P);
            focus.push(s);
        }
    }
    p.ep = Some(f);
    // own king on a line through the focus squares, enemy king anywhere
    if let Some(s) = line_square(t, &p, &focus) {
        p.sq[s as usize] = pc(WHITE, K);
    }
    if let Some(s) = rand_empty(t, &p, 0, 7) {
        p.sq[s as usize] = pc(BLACK, K);
    }
    // enemy sliders on the lines
    let n = t.range(0, 3);
    for _ in 0..n {
        let k = *t.pick(&[R, B, Q, Q]);
        if let Some(s) = line_square(t, &p, &focus) {
            if s != sq(f, 6) {
                place(&mut p, s, BLACK, k);
            }
        }
    }
    // extras
    let n = t.range(0, 4);
    for _ in 0..n {
        let c = t.choose(2) as u8;
        let k = random_piece_kind(t);
        if let Some(s) = rand_empty(t, &p, 0, 7) {
            if s != sq(f, 6) && s != target {
                place(&mut p, s, c, k);
            }
        }
    }
    p
}

fn castling(t: &mut Tape) -> Pos1 {
    let mut p = Pos1::empty();
    p.stm = WHITE;
    p.sq[4] = pc(WHITE, K);
    let which = t.choose(3);
    if which != 1 {
        p.sq[7] = pc(WHITE, R);
        p.cr[WK] = t.choose(8) != 0;
    }
    if which != 0 {
        p.sq[0] = pc(WHITE, R);
        p.cr[WQ] = t.choose(8) != 0;
    }
    // black king: either at home with rooks, or somewhere on ranks 3..8
    if t.choose(3) == 0 {
        p.sq[60] = pc(BLACK, K);
        if t.choose(2) == 0 {
            p.sq[63] = pc(BLACK, R);
            p.cr[BK] = true;
        }
        if t.choose(2) == 0 {
            p.sq[56] = pc(BLACK, R);
            p.cr[BQ] = true;
        }
    } else if let Some(s) = rand_empty(t, &p, 2, 7) {
        p.sq[s as usize] = pc(BLACK, K);
    }
    // attackers aimed at b1..g1
    let n = t.range(0, 2);
    for _ in 0..n {
        let target = t.range(1, 6) as u8;
        let kind = *t.pick(&[P, N, B, R, Q, K]);
        if kind == K {
            continue; // the king is already placed; its adjacency is covered by random king squares
        }
        let mut cands = Vec::new();
        for s in 8..64u8 {
            if p.sq[s as usize] != EMPTY {
                continue;
            }
            if kind == P && rank_of(s) == 7 {
                continue;
            }
            let mut q = Pos1::empty();
            q.sq[s as usize] = pc(BLACK, kind);
            if q.attacked(target, BLACK) {
                cands.push(s);
            }
        }
        if !cands.is_empty() {
            let s = *t.pick(&cands);
            place(&mut p, s, BLACK, kind);
        }
    }
    // blockers / extras
    let n = t.range(0, 4);
    for _ in 0..n {
        let c = t.choose(2) as u8;
        let k = random_piece_kind(t);
        let lo = if t.choose(4) == 0 { 0 } else { 1 };
        if let Some(s) = rand_empty(t, &p, lo, 7) {
            place(&mut p, s, c, k);
        }
    }
    p
}

fn promotion(t: &mut Tape) -> Pos1 {
    let mut p = Pos1::empty();
    p.stm = WHITE;
    let n = t.range(1, 3);
    for _ in 0..n {
        let f = t.choose(8) as u8;
        place(&mut p, sq(f, 6), WHITE, P);
    }
    // black back rank: king at home with rooks sometimes, random targets
    if t.choose(2) == 0 {
        p.sq[60] = pc(BLACK, K);
        if t.choose(2) == 0 {
            p.sq[63] = pc(BLACK, R);
            p.cr[BK] = true;
        }
        if t.choose(2) == 0 {
            p.sq[56] = pc(BLACK, R);
            p.cr[BQ] = true;
        }
    } else if let Some(s) = rand_empty(t, &p, 4, 7) {
        p.sq[s as usize] = pc(BLACK, K);
    }
    let n = t.range(0, 4);
    for _ in 0..n {
        let f = t.choose(8) as u8;
        let k = *t.pick(&[N, B, R, Q]);
        place(&mut p, sq(f, 7), BLACK, k);
    }
    if let Some(s) = rand_empty(t, &p, 0, 6) {
        p.sq[s as usize] = pc(WHITE, K);
    }
    let n = t.range(0, 4);
    for _ in 0..n {
        let c = t.choose(2) as u8;
        let k = random_piece_kind(t);
        if let Some(s) = rand_empty(t, &p, 0, 7) {
            place(&mut p, s, c, k);
        }
    }
    // black pawns about to promote as well
    if t.choose(2) == 0 {
        let f = t.choose(8) as u8;
        place(&mut p, sq(f, 1), BLACK, P);
    }
    p
}

/// as many move-list entries as the rules allow: pawns on the seventh rank (four entries
/// each since every promotion piece has its own entry) plus mobile pieces
/// the shape that needs every one of the move list's entries: eight pawns about to promote,
/// two en-passant capturers that can also push, four knights, and king and rook at home
/// with the castling right (sixteen pieces; ten pawns are fine by the validity list)
fn longest_move_list(t: &mut Tape) -> Pos1 {
    let mut p = Pos1::empty();
    p.stm = WHITE;
    for f in 0..8u8 {
        p.sq[sq(f, 6) as usize] = pc(WHITE, P);
    }
    let f = t.range(1, 6) as u8;
    p.sq[sq(f, 4) as usize] = pc(BLACK, P);
    p.sq[sq(f - 1, 4) as usize] = pc(WHITE, P);
    p.sq[sq(f + 1, 4) as usize] = pc(WHITE, P);
    p.ep = Some(f);
    p.sq[4] = pc(WHITE, K);
    let kingside = t.choose(2) == 0;
    if kingside {
        p.sq[7] = pc(WHITE, R);
        p.cr[WK] = t.choose(4) != 0;
    } else {
        p.sq[0] = pc(WHITE, R);
        p.cr[WQ] = t.choose(4) != 0;
    }
    let mut knights = 0;
    for _ in 0..12 {
        if knights == 4 {
            break;
        }
        if let Some(s) = rand_empty(t, &p, 0, 2) {
            // keep the castling path clear
            if (kingside && (s == 5 || s == 6)) || (!kingside && (s == 1 || s == 2 || s == 3)) {
                continue;
            }
            if place(&mut p, s, WHITE, N) {
                knights += 1;
            }
        }
    }
    // the black king out of everybody's way
    for s in [sq(7, 3), sq(6, 3), sq(0, 3), sq(7, 4), sq(0, 4)] {
        if p.sq[s as usize] == EMPTY {
            p.sq[s as usize] = pc(BLACK, K);
            if usable(&p) {
                break;
            }
            p.sq[s as usize] = EMPTY;
        }
    }
    p
}

fn promotion_wall(t: &mut Tape) -> Pos1 {
    if t.choose(4) == 3 {
        return longest_move_list(t);
    }
    let mut p = Pos1::empty();
    p.stm = WHITE;
    let pawns = t.range(5, 8);
    let skip = t.choose(8) as u8;
    let mut placed = 0;
    for i in 0..8u8 {
        let f = (i + skip) & 7;
        if placed < pawns {
            p.sq[sq(f, 6) as usize] = pc(WHITE, P);
            placed += 1;
        }
    }
    // the eighth rank: mostly empty, a few capturable black pieces
    let n = t.range(0, 3);
    for _ in 0..n {
        let f = t.choose(8) as u8;
        let k = *t.pick(&[N, B, R, Q]);
        place(&mut p, sq(f, 7), BLACK, k);
    }
    // the black king away from the wall, the white king somewhere below
    if let Some(s) = rand_empty(t, &p, 2, 4) {
        p.sq[s as usize] = pc(BLACK, K);
    }
    if let Some(s) = rand_empty(t, &p, 0, 1) {
        p.sq[s as usize] = pc(WHITE, K);
    }
    // remaining white pieces up to sixteen, all mobile types
    let n = (15 - pawns).min(t.range(4, 8));
    for _ in 0..n {
        let k = *t.pick(&[Q, N, R, B, Q, N]);
        if let Some(s) = rand_empty(t, &p, 0, 5) {
            place(&mut p, s, WHITE, k);
        }
    }
    p
}

/// the longest record: 32 men on alternating squares of every rank (no run of empty squares
/// is longer than one, so the placement field takes 71 bytes), queen-side rights for both
/// sides and four-digit clocks - 88 to 90 bytes of text
fn longest_text(t: &mut Tape) -> Pos1 {
    for _ in 0..60 {
        let mut p = Pos1::empty();
        p.stm = if t.choose(2) == 0 { WHITE } else { BLACK };
        // squares: rank r uses files of parity par[r]; ranks 1 and 8 start on the a-file so
        // that a1/e1 and a8/e8 are available
        let mut slots: Vec<u8> = Vec::new();
        for r in 0..8u8 {
            let par = if r == 0 || r == 7 { 0 } else { t.choose(2) as u8 };
            for f in 0..8u8 {
                if f % 2 == par {
                    slots.push(sq(f, r));
                }
            }
        }
        p.sq[sq(4, 0) as usize] = pc(WHITE, K);
        p.sq[sq(0, 0) as usize] = pc(WHITE, R);
        p.sq[sq(4, 7) as usize] = pc(BLACK, K);
        p.sq[sq(0, 7) as usize] = pc(BLACK, R);
        p.cr[WQ] = true;
        p.cr[BQ] = true;
        // fourteen more men per side: up to eight pawns (ranks 2-7), the rest minor pieces and
        // a queen, own men preferably on the own half so that few checks arise
        for c in [WHITE, BLACK] {
            let mut pawns = 0;
            let mut left = 14;
            let mut order: Vec<u8> = slots.iter().copied().filter(|&s| p.sq[s as usize] == EMPTY).collect();
            if c == BLACK {
                order.reverse();
            }
            for s in order {
                if left == 0 {
                    break;
                }
                let r = rank_of(s);
                let own_half = if c == WHITE { r <= 3 } else { r >= 4 };
                if !own_half {
                    continue;
                }
                let k = if (1..=6).contains(&r) && pawns < 8 && t.choose(4) != 0 {
                    pawns += 1;
                    P
                } else {
                    *t.pick(&[N, B, N, B, R, Q])
                };
                p.sq[s as usize] = pc(c, k);
                left -= 1;
            }
        }
        p.hmc = *t.pick(&[9990u32, 9998, 1234, 9999]);
        p.fmn = *t.pick(&[9990u32, 9998, 4321, 9999]);
        if usable(&p) {
            return p;
        }
    }
    promotion_wall(t)
}

fn extremal(t: &mut Tape) -> Pos1 {
    if t.choose(3) == 2 {
        return promotion_wall(t);
    }
    if t.choose(4) == 3 {
        return longest_text(t);
    }
    // up to 16 mobile white pieces plus two en-passant capturers
    let mut p = Pos1::empty();
    p.stm = WHITE;
    let f = t.range(1, 6) as u8;
    p.sq[sq(f, 4) as usize] = pc(BLACK, P);
    p.sq[sq(f - 1, 4) as usize] = pc(WHITE, P);
    p.sq[sq(f + 1, 4) as usize] = pc(WHITE, P);
    p.ep = Some(f);
    if let Some(s) = rand_empty(t, &p, 0, 2) {
        p.sq[s as usize] = pc(WHITE, K);
    }
    let many_queens = t.choose(2) == 0;
    let n = t.range(8, 13);
    for _ in 0..n {
        let k = if many_queens { Q } else { *t.pick(&[N, B, R, Q, Q, N, P]) };
        let hi = if k == P { 5 } else { 7 };
        let lo = if k == P { 1 } else { 0 };
        if let Some(s) = rand_empty(t, &p, lo, hi) {
            if s != sq(f, 5) && s != sq(f, 6) {
                place(&mut p, s, WHITE, k);
            }
        }
    }
    if let Some(s) = rand_empty(t, &p, 5, 7) {
        if s != sq(f, 5) && s != sq(f, 6) {
            p.sq[s as usize] = pc(BLACK, K);
        }
    }
    let n = t.range(0, 3);
    for _ in 0..n {
        let k = random_piece_kind(t);
        if let Some(s) = rand_empty(t, &p, 1, 6) {
            if s != sq(f, 5) && s != sq(f, 6) {
                place(&mut p, s, BLACK, k);
            }
        }
    }
    p
}

fn endgame(t: &mut Tape) -> Pos1 {
    let mut p = Pos1::empty();
    p.stm = t.choose(2) as u8;
    // weak king near an edge more often
    let edge = t.choose(2) == 0;
    let (lo, hi) = if edge { (7, 7) } else { (0, 7) };
    if let Some(s) = rand_empty(t, &p, lo, hi) {
        p.sq[s as usize] = pc(BLACK, K);
    }
    if let Some(s) = rand_empty(t, &p, if edge { 4 } else { 0 }, 7) {
        p.sq[s as usize] = pc(WHITE, K);
    }
    let n = t.range(1, 3);
    for _ in 0..n {
        let k = *t.pick(&[Q, R, R, Q, P, B, N]);
        if let Some(s) = rand_empty(t, &p, if edge { 4 } else { 0 }, 7) {
            place(&mut p, s, WHITE, k);
        }
    }
    if t.choose(3) == 0 {
        let k = *t.pick(&[P, N, B, R]);
        if let Some(s) = rand_empty(t, &p, 0, 7) {
            place(&mut p, s, BLACK, k);
        }
    }
    p
}

fn shuffle(t: &mut Tape) -> Pos1 {
    let mut p = Pos1::empty();
    p.stm = t.choose(2) as u8;
    if let Some(s) = rand_empty(t, &p, 0, 1) {
        p.sq[s as usize] = pc(WHITE, K);
    }
    if let Some(s) = rand_empty(t, &p, 6, 7) {
        p.sq[s as usize] = pc(BLACK, K);
    }
    for c in [WHITE, BLACK] {
        let n = t.range(1, 2);
        for _ in 0..n {
            let k = *t.pick(&[N, R, N, B]);
            let (lo, hi) = if c == WHITE { (0, 2) } else { (5, 7) };
            if let Some(s) = rand_empty(t, &p, lo, hi) {
                place(&mut p, s, c, k);
            }
        }
    }
    // a blocked pawn pair keeps the material "sufficient" for the engine
    if t.choose(2) == 0 {
        let f = t.choose(8) as u8;
        if p.sq[sq(f, 3) as usize] == EMPTY && p.sq[sq(f, 4) as usize] == EMPTY {
            p.sq[sq(f, 3) as usize] = pc(WHITE, P);
            p.sq[sq(f, 4) as usize] = pc(BLACK, P);
        }
    }
    p
}

/// a weak king on its fifth rank with an enemy pawn on its start rank on a neighbouring file
/// and a handful of pieces in the neighbourhood (mates by a double step, among others)
fn pawn_storm(t: &mut Tape) -> Pos1 {
    let mut p = Pos1::empty();
    p.stm = WHITE;
    let f = t.choose(8) as u8;
    let bk = sq(f, 4);
    p.sq[bk as usize] = pc(BLACK, K);
    let pf = if f == 0 { 1 } else if f == 7 { 6 } else if t.choose(2) == 0 { f - 1 } else { f + 1 };
    p.sq[sq(pf, 1) as usize] = pc(WHITE, P);
    let near = |t: &mut Tape| -> u8 {
        let df = t.range(0, 4) as i8 - 2;
        let dr = t.range(0, 4) as i8 - 2;
        let nf = (f as i8 + df).clamp(0, 7) as u8;
        let nr = (4 + dr).clamp(0, 7) as u8;
        sq(nf, nr)
    };
    let n = t.range(2, 5);
    for _ in 0..n {
        let k = *t.pick(&[Q, R, R, B, N, N, P, K]);
        let s = near(t);
        if s == sq(pf, 2) || s == sq(pf, 3) {
            continue;
        }
        if k == K {
            if p.king_sq(WHITE).is_none() {
                place(&mut p, s, WHITE, K);
            }
        } else {
            place(&mut p, s, WHITE, k);
        }
    }
    if p.king_sq(WHITE).is_none() {
        if let Some(s) = rand_empty(t, &p, 0, 7) {
            if s != sq(pf, 2) && s != sq(pf, 3) {
                p.sq[s as usize] = pc(WHITE, K);
            }
        }
    }
    let n = t.range(0, 3);
    for _ in 0..n {
        let k = *t.pick(&[P, P, N, B, R]);
        let s = near(t);
        if s != sq(pf, 2) && s != sq(pf, 3) {
            place(&mut p, s, BLACK, k);
        }
    }
    p
}

/// the side to move is in check by one piece and has few pieces of its own (few replies)
fn in_check_net(t: &mut Tape) -> Pos1 {
    let mut p = Pos1::empty();
    p.stm = WHITE;
    let wk = t.choose(64) as u8;
    p.sq[wk as usize] = pc(WHITE, K);
    // the enemy king, preferably on the rim
    for _ in 0..6 {
        let s = if t.choose(3) != 0 { sq(t.choose(8) as u8, *t.pick(&[0u8, 7])) } else { t.choose(64) as u8 };
        if p.sq[s as usize] == EMPTY {
            p.sq[s as usize] = pc(BLACK, K);
            break;
        }
    }
    // a checker
    let kind = *t.pick(&[R, B, Q, N, Q, R]);
    let mut cands = Vec::new();
    for s in 0..64u8 {
        if p.sq[s as usize] != EMPTY {
            continue;
        }
        let mut q = Pos1::empty();
        q.sq[s as usize] = pc(BLACK, kind);
        if q.attacked(wk, BLACK) {
            cands.push(s);
        }
    }
    if !cands.is_empty() {
        let s = *t.pick(&cands);
        place(&mut p, s, BLACK, kind);
    }
    let n = t.range(1, 4);
    for _ in 0..n {
        let k = *t.pick(&[Q, R, B, N, P, R, Q]);
        if let Some(s) = rand_empty(t, &p, 0, 7) {
            place(&mut p, s, WHITE, k);
        }
    }
    let n = t.range(0, 4);
    for _ in 0..n {
        let k = *t.pick(&[P, P, N, B, R, Q]);
        if let Some(s) = rand_empty(t, &p, 0, 7) {
            place(&mut p, s, BLACK, k);
        }
    }
    p
}

/// a battery aimed at the enemy king: a slider behind one of our own pieces on a line to the
/// king, so that the front piece, moving off the line, uncovers a check - and gives a second
/// one itself if it lands right (double checks, by two sliders among others)
fn battery_net(t: &mut Tape) -> Pos1 {
    let mut p = Pos1::empty();
    p.stm = WHITE;
    // the enemy king, preferably on the rim
    let bk = if t.choose(3) != 0 { sq(t.choose(8) as u8, *t.pick(&[0u8, 7, 7])) } else { t.choose(64) as u8 };
    p.sq[bk as usize] = pc(BLACK, K);
    let dirs: [(i8, i8); 8] = [(1, 0), (-1, 0), (0, 1), (0, -1), (1, 1), (1, -1), (-1, 1), (-1, -1)];
    for _ in 0..8 {
        let (dx, dy) = *t.pick(&dirs);
        let a = t.range(1, 4) as i8;
        let b = a + t.range(1, 4) as i8;
        let at = |d: i8| -> Option<u8> {
            let f = file_of(bk) as i8 + dx * d;
            let r = rank_of(bk) as i8 + dy * d;
            if (0..8).contains(&f) && (0..8).contains(&r) {
                Some(sq(f as u8, r as u8))
            } else {
                None
            }
        };
        let (Some(front), Some(back)) = (at(a), at(b)) else { continue };
        let slider = if dx == 0 || dy == 0 { *t.pick(&[R, Q, R]) } else { *t.pick(&[B, Q, B]) };
        let front_kind = if dx == 0 || dy == 0 { *t.pick(&[B, N, B, P]) } else { *t.pick(&[R, N, R, P]) };
        if front_kind == P && (rank_of(front) == 0 || rank_of(front) == 7) {
            continue;
        }
        p.sq[back as usize] = pc(WHITE, slider);
        p.sq[front as usize] = pc(WHITE, front_kind);
        break;
    }
    if let Some(s) = rand_empty(t, &p, 0, 7) {
        p.sq[s as usize] = pc(WHITE, K);
    }
    let n = t.range(0, 4);
    for _ in 0..n {
        let k = *t.pick(&[Q, R, B, N, P, R]);
        if let Some(s) = rand_empty(t, &p, 0, 7) {
            place(&mut p, s, WHITE, k);
        }
    }
    // own pieces of the enemy king next to it (they take flight squares away)
    let n = t.range(0, 4);
    for _ in 0..n {
        let k = *t.pick(&[P, P, N, B, R]);
        let f = (file_of(bk) as i8 + t.range(0, 2) as i8 - 1).clamp(0, 7) as u8;
        let r = (rank_of(bk) as i8 + t.range(0, 2) as i8 - 1).clamp(0, 7) as u8;
        let s = sq(f, r);
        if p.sq[s as usize] == EMPTY && !(k == P && (r == 0 || r == 7)) {
            place(&mut p, s, BLACK, k);
        }
    }
    p
}

/// a pawn about to promote a knight's move away from the enemy king, which is hemmed in by
/// its own pieces (mates that only the knight promotion - by push or by capture - delivers)
fn knight_promotion_net(t: &mut Tape) -> Pos1 {
    let mut p = Pos1::empty();
    p.stm = WHITE;
    let f = t.choose(8) as i8;
    let target = sq(f as u8, 7);
    let mut ks: Vec<u8> = Vec::new();
    for (dx, r) in [(-1i8, 5u8), (1, 5), (-2, 6), (2, 6)] {
        let kf = f + dx;
        if (0..8).contains(&kf) {
            ks.push(sq(kf as u8, r));
        }
    }
    let bk = *t.pick(&ks);
    p.sq[bk as usize] = pc(BLACK, K);
    // the pawn: straight below the promotion square, or diagonally below it with something to capture
    let capture = t.choose(3) != 0;
    let pf = if capture { if f == 0 { 1 } else if f == 7 { 6 } else if t.choose(2) == 0 { f - 1 } else { f + 1 } } else { f };
    let from = sq(pf as u8, 6);
    if from == bk {
        return p;
    }
    p.sq[from as usize] = pc(WHITE, P);
    if capture {
        p.sq[target as usize] = pc(BLACK, *t.pick(&[R, B, N, Q, R]));
    }
    // the king's neighbourhood, mostly filled with its own pieces
    for dx in -1i8..=1 {
        for dy in -1i8..=1 {
            let nf = file_of(bk) as i8 + dx;
            let nr = rank_of(bk) as i8 + dy;
            if (dx, dy) == (0, 0) || !(0..8).contains(&nf) || !(0..8).contains(&nr) {
                continue;
            }
            let s = sq(nf as u8, nr as u8);
            if p.sq[s as usize] != EMPTY || t.choose(4) == 0 {
                continue;
            }
            let k = *t.pick(&[P, P, N, B, R, P]);
            if k == P && (nr == 0 || nr == 7) {
                continue;
            }
            p.sq[s as usize] = pc(BLACK, k);
        }
    }
    if let Some(s) = rand_empty(t, &p, 0, 4) {
        p.sq[s as usize] = pc(WHITE, K);
    }
    let n = t.range(0, 3);
    for _ in 0..n {
        let k = *t.pick(&[B, N, R, Q, P]);
        if let Some(s) = rand_empty(t, &p, 0, 7) {
            place(&mut p, s, WHITE, k);
        }
    }
    p
}

/// a pawn on its seventh rank pinned on a diagonal by a piece on the last rank which it can
/// capture, promoting (the capture stays on the pin line), with the enemy king near by
fn pinned_promotion_net(t: &mut Tape) -> Pos1 {
    let mut p = Pos1::empty();
    p.stm = WHITE;
    let f = t.range(0, 7) as i8;
    let dir: i8 = if f == 0 { 1 } else if f == 7 { -1 } else if t.choose(2) == 0 { 1 } else { -1 };
    let pawn = sq(f as u8, 6);
    let pinner = sq((f + dir) as u8, 7);
    p.sq[pawn as usize] = pc(WHITE, P);
    p.sq[pinner as usize] = pc(BLACK, *t.pick(&[B, Q, B]));
    // own king further down the same diagonal
    let mut cands: Vec<u8> = Vec::new();
    let mut kf = f - dir;
    let mut kr = 5i8;
    while (0..8).contains(&kf) && kr >= 0 {
        cands.push(sq(kf as u8, kr as u8));
        kf -= dir;
        kr -= 1;
    }
    if cands.is_empty() {
        return p;
    }
    let wk = *t.pick(&cands);
    p.sq[wk as usize] = pc(WHITE, K);
    // the enemy king on the last two ranks, hemmed in by a few of its own men
    for _ in 0..8 {
        let s = sq(t.choose(8) as u8, t.range(6, 7) as u8);
        if p.sq[s as usize] == EMPTY {
            p.sq[s as usize] = pc(BLACK, K);
            let n = t.range(0, 3);
            for _ in 0..n {
                let q = sq((file_of(s) as i8 + t.range(0, 2) as i8 - 1).clamp(0, 7) as u8, (rank_of(s) as i8 + t.range(0, 2) as i8 - 1).clamp(0, 7) as u8);
                let k = *t.pick(&[P, N, B, R]);
                if p.sq[q as usize] == EMPTY && !(k == P && (rank_of(q) == 0 || rank_of(q) == 7)) {
                    p.sq[q as usize] = pc(BLACK, k);
                }
            }
            break;
        }
    }
    let n = t.range(0, 3);
    for _ in 0..n {
        let k = *t.pick(&[R, Q, B, N]);
        if let Some(s) = rand_empty(t, &p, 0, 7) {
            place(&mut p, s, WHITE, k);
        }
    }
    p
}

/// the enemy pawn has just double-stepped next to one of our pawns, with the enemy king and
/// a few of our pieces close by (mates by an en-passant capture, among others)
fn ep_net(t: &mut Tape) -> Pos1 {
    let mut p = Pos1::empty();
    p.stm = WHITE;
    let f = t.choose(8) as u8;
    p.sq[sq(f, 4) as usize] = pc(BLACK, P);
    p.ep = Some(f);
    let cf = if f == 0 { 1 } else if f == 7 { 6 } else if t.choose(2) == 0 { f - 1 } else { f + 1 };
    p.sq[sq(cf, 4) as usize] = pc(WHITE, P);
    // enemy king near the capture square
    for _ in 0..8 {
        let kf = (f as i8 + t.range(0, 4) as i8 - 2).clamp(0, 7) as u8;
        let kr = t.range(5, 7) as u8;
        let s = sq(kf, kr);
        if p.sq[s as usize] == EMPTY && s != sq(f, 5) && s != sq(f, 6) {
            p.sq[s as usize] = pc(BLACK, K);
            break;
        }
    }
    let n = t.range(2, 5);
    for _ in 0..n {
        let k = *t.pick(&[Q, R, R, B, N, K, B]);
        let nf = (f as i8 + t.range(0, 6) as i8 - 3).clamp(0, 7) as u8;
        let nr = t.range(2, 7) as u8;
        let s = sq(nf, nr);
        if s == sq(f, 5) || s == sq(f, 6) {
            continue;
        }
        if k == K {
            if p.king_sq(WHITE).is_none() {
                place(&mut p, s, WHITE, K);
            }
        } else {
            place(&mut p, s, WHITE, k);
        }
    }
    if p.king_sq(WHITE).is_none() {
        if let Some(s) = rand_empty(t, &p, 0, 3) {
            p.sq[s as usize] = pc(WHITE, K);
        }
    }
    let n = t.range(0, 3);
    for _ in 0..n {
        let k = *t.pick(&[P, P, N, B, R]);
        let nf = (f as i8 + t.range(0, 4) as i8 - 2).clamp(0, 7) as u8;
        let nr = t.range(4, 7) as u8;
        let s = sq(nf, nr);
        if s != sq(f, 5) && s != sq(f, 6) {
            place(&mut p, s, BLACK, k);
        }
    }
    p
}

/// a mate by a capture that leaves next to no material: start from a position in which a
/// cornered king is mated by king and two knights (or king and knight with an own blocker),
/// then take the last move back as a capture
fn bare_capture_mate(t: &mut Tape) -> Option<Pos1> {
    for _ in 0..400 {
        let mut p = Pos1::empty();
        p.stm = BLACK;
        let corner = *t.pick(&[0u8, 7, 56, 63]);
        p.sq[corner as usize] = pc(BLACK, K);
        let near = |t: &mut Tape, d: i8| -> u8 {
            let f = (file_of(corner) as i8 + if file_of(corner) == 0 { t.range(0, d as u32) as i8 } else { -(t.range(0, d as u32) as i8) }).clamp(0, 7) as u8;
            let r = (rank_of(corner) as i8 + if rank_of(corner) == 0 { t.range(0, d as u32) as i8 } else { -(t.range(0, d as u32) as i8) }).clamp(0, 7) as u8;
            sq(f, r)
        };
        let wk = near(t, 2);
        if !place(&mut p, wk, WHITE, K) {
            continue;
        }
        let n1 = near(t, 3);
        let n2 = near(t, 3);
        if !place(&mut p, n1, WHITE, N) || !place(&mut p, n2, WHITE, N) {
            continue;
        }
        if p.validity().is_err() || !p.in_check() || !p.legal_moves().is_empty() {
            continue;
        }
        // mated: take back the last move of one of the knights as a capture
        let mover = if t.choose(2) == 0 { n1 } else { n2 };
        if !p.attackers(corner, WHITE).contains(&mover) {
            continue;
        }
        let mut from_cands = Vec::new();
        for s in 0..64u8 {
            if p.sq[s as usize] == EMPTY {
                let df = (file_of(s) as i8 - file_of(mover) as i8).abs();
                let dr = (rank_of(s) as i8 - rank_of(mover) as i8).abs();
                if (df == 1 && dr == 2) || (df == 2 && dr == 1) {
                    from_cands.push(s);
                }
            }
        }
        if from_cands.is_empty() {
            continue;
        }
        let from = *t.pick(&from_cands);
        let victim = *t.pick(&[N, B, R, Q, P]);
        if victim == P && (rank_of(mover) == 0 || rank_of(mover) == 7) {
            continue;
        }
        let mut q = p.clone();
        q.stm = WHITE;
        q.sq[mover as usize] = pc(BLACK, victim);
        q.sq[from as usize] = pc(WHITE, N);
        q.hmc = 3;
        q.fmn = 40;
        if usable(&q) && q.mating_moves().contains(&Mv::new(from, mover, 0)) {
            return Some(if t.choose(2) == 0 { q } else { q.mirror() });
        }
    }
    None
}

/// G10: search a mixture of generators for a position with a mate in one of a drawn kind
/// `s` holds a man of the side to move that stands on a rank, file or diagonal through its
/// own king, with exactly one other man (of either colour) and then an enemy slider of the
/// right kind further along that line
fn looks_pinned(p: &Pos1, s: u8) -> bool {
    let Some(k) = p.king_sq(p.stm) else { return false };
    let (df, dr) = (file_of(s) as i8 - file_of(k) as i8, rank_of(s) as i8 - rank_of(k) as i8);
    if !(df == 0 || dr == 0 || df.abs() == dr.abs()) || (df == 0 && dr == 0) {
        return false;
    }
    let (sf, sr) = (df.signum(), dr.signum());
    let diagonal = sf != 0 && sr != 0;
    let (mut f, mut r) = (file_of(k) as i8 + sf, rank_of(k) as i8 + sr);
    let mut seen_s = false;
    let mut others = 0;
    while (0..8).contains(&f) && (0..8).contains(&r) {
        let q = sq(f as u8, r as u8);
        let x = p.sq[q as usize];
        if q == s {
            seen_s = true;
        } else if x != EMPTY {
            let enemy_slider = color_of(x) != p.stm && (kind_of(x) == Q || kind_of(x) == if diagonal { B } else { R });
            if enemy_slider && seen_s && others == 1 {
                return true;
            }
            others += 1;
            if others > 1 {
                return false;
            }
        }
        f += sf;
        r += sr;
    }
    false
}

fn mate_hunt(t: &mut Tape) -> Pos1 {
    let want = t.choose(15);
    let mut fallback: Option<Pos1> = None;
    if want == 9 {
        if let Some(p) = bare_capture_mate(t) {
            return p;
        }
    }
    let tries = if want == 5 || want == 8 || want == 2 || want >= 10 { 1500 } else { 250 };
    let tries = if want == 13 { 4000 } else { tries };
    for _ in 0..tries {
        let which = if want == 5 || want == 8 { 6 } else if want == 2 { 7 } else if want == 14 { 10 } else if want == 13 { *t.pick(&[8u32, 6, 2, 3]) } else if want == 12 { 9 } else if want >= 10 { 8 } else { t.choose(6) };
        let mut p = match which {
            8 => battery_net(t),
            9 => knight_promotion_net(t),
            10 => pinned_promotion_net(t),
            6 => in_check_net(t),
            7 => ep_net(t),
            0 | 1 => pawn_storm(t),
            2 => endgame(t),
            3 => sparse(t),
            4 => promotion(t),
            _ => castling(t),
        };
        if t.choose(2) == 1 {
            p = p.mirror();
        }
        if which == 3 || which == 7 {
            // these generators set the ep marker themselves
        } else if want == 2 {
            draw_ep(t, &mut p);
        }
        p.fmn = 1;
        p.hmc = if want == 7 { 99 } else { 0 };
        if p.ep.is_some() {
            p.hmc = 0;
        }
        if !usable(&p) {
            continue;
        }
        if want == 5 && p.legal_moves().len() != 1 {
            continue;
        }
        let mates = p.mating_moves();
        if mates.is_empty() {
            continue;
        }
        let ok = match want {
            1 => mates.iter().any(|&m| p.kind(m) == MoveKind::DoubleStep),
            2 => mates.iter().any(|&m| p.kind(m) == MoveKind::EnPassant),
            3 => mates.iter().any(|&m| matches!(p.kind(m), MoveKind::CastleK | MoveKind::CastleQ)),
            4 => mates.iter().any(|&m| matches!(p.kind(m), MoveKind::PromoN | MoveKind::PromoB | MoveKind::PromoR)),
            5 => p.legal_moves().len() == 1,
            6 => mates.len() >= 3,
            7 => p.hmc == 99 && mates.iter().any(|&m| p.kind(m) == MoveKind::Quiet && kind_of(p.sq[m.from as usize]) != P),
            8 => p.in_check(),
            // a mate by double check; (11) with both checks given by sliders
            10 | 11 => mates.iter().any(|&m| {
                let q = p.make(m);
                match q.king_sq(q.stm) {
                    Some(k) => {
                        let att = q.attackers(k, q.stm ^ 1);
                        att.len() >= 2 && (want == 10 || att.iter().all(|&a| matches!(kind_of(q.sq[a as usize]), B | R | Q)))
                    }
                    None => false,
                }
            }),
            // the knight promotion is the only way to mate
            12 => mates.iter().all(|&m| p.kind(m) == MoveKind::PromoN),
            // the only mating piece stands on a line between its own king and an enemy slider
            // with exactly one more man between king and slider (it looks pinned to a scan
            // that counts carelessly, and is not)
            13 => {
                let mut from: Vec<u8> = mates.iter().map(|m| m.from).collect();
                from.sort();
                from.dedup();
                from.len() == 1 && looks_pinned(&p, from[0])
            }
            // the only mate is a promotion by a pawn that is pinned along its capture
            14 => mates.iter().all(|&m| matches!(p.kind(m), MoveKind::PromoN | MoveKind::PromoB | MoveKind::PromoR | MoveKind::PromoQ) && file_of(m.from) != file_of(m.to)),
            _ => true,
        };
        if ok {
            return p;
        }
        if fallback.is_none() {
            fallback = Some(p);
        }
    }
    fallback.unwrap_or_else(Pos1::standard)
}

/// Draw one start position from generator `g`; returns None if no valid
/// position was found within the retry budget (the run then falls back to G0).
pub fn generate(t: &mut Tape, g: u32) -> Pos1 {
    if g == 0 || g == 1 {
        let mut p = Pos1::standard();
        if g == 1 {
            // a short random opening played on the model
            let plies = t.range(1, 16);
            for _ in 0..plies {
                let ms = p.legal_moves();
                if ms.is_empty() {
                    break;
                }
                let m = *t.pick(&ms);
                p = p.make(m);
            }
        }
        return p;
    }
    if g == 10 {
        return mate_hunt(t);
    }
    for _ in 0..40 {
        let base = match g {
            2 => sparse(t),
            3 => enpassant(t),
            4 => castling(t),
            5 => promotion(t),
            6 => extremal(t),
            7 => endgame(t),
            8 => shuffle(t),
            _ => {
                // G9: any of the others, with clocks near their limits
                let inner = t.range(2, 8);
                let mut p = match inner {
                    2 => sparse(t),
                    3 => enpassant(t),
                    4 => castling(t),
                    5 => promotion(t),
                    6 => extremal(t),
                    7 => endgame(t),
                    _ => shuffle(t),
                };
                if inner != 2 && inner != 7 && inner != 8 {
                    p = maybe_mirror(t, p);
                }
                draw_clocks(t, &mut p, true);
                if usable(&p) {
                    return p;
                }
                continue;
            }
        };
        let mut p = match g {
            3 | 4 | 5 | 6 => maybe_mirror(t, base),
            _ => base,
        };
        draw_clocks(t, &mut p, false);
        if usable(&p) {
            return p;
        }
    }
    Pos1::standard()
}
