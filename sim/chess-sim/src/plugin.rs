//! S-PLUGIN — the simulator is the driver; the real `libchess_bot.so` is
//! loaded through `chess_api::ChessApiRef` and two engine instances (replicas)
//! are driven exactly as `chess-cli/src/bot_fight.rs` does, with a saboteur
//! interleaving byzantine operations (C15).

use crate::clock::{SimTimeout, SLACK};
use crate::core::*;
use crate::refmodel::{self as m1, Mv, MoveKind, Pos1, PosKey};
use crate::{gen, sut};
use chess_api::ChessEngine;
use std::cell::Cell;
use std::collections::BTreeMap;

struct Replica {
    eng: ChessEngine,
    model: Pos1,
    /// occurrences since the last set_board, under the two readings of
    /// "since the board was last set": [set position not counted, counted]
    counts: [BTreeMap<PosKey, u32>; 2],
    set_key: PosKey,
    /// hash of the call history, to know when two replicas must agree
    hist: u64,
    name: &'static str,
}

fn hist_push(h: &mut u64, tag: u8, m: Mv) {
    crate::tape::fnv(h, &[tag, m.from, m.to, m.promo]);
}

fn board_of(r: &Replica) -> chess_movegen::Board {
    op(Op::Plugin, || r.eng.board())
}

fn set_board(ctx: &mut Ctx, r: &mut Replica, p: &Pos1) -> Step {
    let b = match op(Op::Parse, || sut::to_board(p)) {
        Ok(b) => b,
        Err(e) => return ctx.fail(Prop::C06, "parse.rejected-canonical", String::new(), format!("{}: {e}", p.fen())),
    };
    // a board that does not read back as the record it was parsed from is the parser's failure
    // (C05), and nothing the plugin does with it afterwards can be held against the plugin
    if let Some(comp) = op(Op::Print, || sut::load_mismatch(&b, p)) {
        return ctx.fail(Prop::C05, "fen.parsed-differs", format!("component={comp}"), format!("parsing {:?}: the board differs in {comp}", p.fen()));
    }
    op(Op::Plugin, || r.eng.set_board(b));
    r.model = p.clone();
    r.counts = [BTreeMap::new(), BTreeMap::new()];
    r.counts[1].insert(p.key(), 1);
    r.set_key = p.key();
    r.hist = crate::tape::FNV0;
    crate::tape::fnv(&mut r.hist, p.fen().as_bytes());
    ctx.stats.bump("c15.calls.set_board");
    // the board must read back as set
    let got = board_of(r);
    match op(Op::Print, || sut::read_board(&got)) {
        Ok(g) if g == *p => Ok(()),
        _ => ctx.fail(Prop::C15, "plugin.board-differs", "after=set_board".into(), format!("board() after set_board({}) differs", p.fen())),
    }
}

/// submit a move to one replica and check the answer against its own model
fn submit(ctx: &mut Ctx, r: &mut Replica, variants: &mut [bool; 2], m: Mv, fault: &'static str) -> Step<(bool, bool)> {
    let legal = r.model.legal_moves().contains(&m);
    let before = board_of(r);
    let before_text = op(Op::Print, || format!("{before:?}"));
    let res = op(Op::Plugin, || r.eng.make_move(sut::mv(m)));
    ctx.stats.bump("c15.calls.make_move");
    hist_push(&mut r.hist, 1, m);
    let fen = r.model.fen();
    let after = board_of(r);
    let feat0 = format!("fault={fault}");
    if res.is_valid != legal {
        let class = if res.is_valid { "plugin.accepted-illegal" } else { "plugin.refused-legal" };
        return ctx.fail(Prop::C15, class, feat0, format!("replica {}: make_move({}) is_valid={} but reference legality is {} in {fen}", r.name, m.text(), res.is_valid, legal));
    }
    if !legal {
        ctx.stats.bump("c15.illegal-submissions");
        let after_text = op(Op::Print, || format!("{after:?}"));
        if after_text != before_text || !op(Op::Hash, || after == before) {
            return ctx.fail(Prop::C15, "plugin.board-changed-on-refusal", feat0, format!("replica {}: refused {} but the board changed in {fen}", r.name, m.text()));
        }
        if res.is_three_fold_draw {
            return ctx.fail(Prop::C15, "plugin.flag-spurious", format!("{feat0};on=refusal"), format!("replica {}: threefold flag raised on a refused move in {fen}", r.name));
        }
        return Ok((false, false));
    }
    let next = r.model.make(m);
    match op(Op::Print, || sut::read_board(&after)) {
        Ok(g) if g == next => {}
        Ok(g) => return ctx.fail(Prop::C15, "plugin.board-differs", feat0, format!("replica {}: after {} board() is {} but the reference successor is {}", r.name, m.text(), g.fen(), next.fen())),
        Err(e) => return ctx.fail(Prop::C15, "plugin.board-differs", feat0, format!("replica {}: after {}: {e}", r.name, m.text())),
    }
    r.model = next;
    let key = r.model.key();
    let is_set_pos = key == r.set_key;
    let mut expect = [false; 2];
    let mut now = [0u32; 2];
    for v in 0..2 {
        let c = r.counts[v].entry(key.clone()).or_insert(0);
        *c = c.wrapping_add(1);
        now[v] = *c;
        expect[v] = *c == 3;
    }
    if now[0] >= 3 {
        ctx.stats.bump("probe.third-occurrence");
    }
    ctx.stats.max("max.occurrences", now[0] as u64);
    let flag = res.is_three_fold_draw;
    for v in 0..2 {
        if variants[v] && expect[v] != flag {
            variants[v] = false;
        }
    }
    if !variants[0] && !variants[1] {
        let class = if flag { "plugin.flag-spurious" } else { "plugin.flag-missing" };
        return ctx.fail(Prop::C15, class, format!("{feat0};count={};set_position={}", now[0].min(9), is_set_pos as u8), format!("replica {}: after {} the position {} has occurred {} times since set_board ({} counting the set position); flag={flag}", r.name, m.text(), r.model.fen(), now[0], now[1]));
    }
    Ok((true, flag))
}

fn choose_reversible(ctx: &mut Ctx, model: &Pos1, last: Option<Mv>, l: &[Mv]) -> Mv {
    if let Some(prev) = last {
        let undo = Mv::new(prev.to, prev.from, 0);
        if l.contains(&undo) && ctx.tape.choose(8) != 0 {
            return undo;
        }
    }
    let quiet: Vec<Mv> = l.iter().copied().filter(|&m| model.kind(m) == MoveKind::Quiet && m1::kind_of(model.sq[m.from as usize]) != m1::P).collect();
    if !quiet.is_empty() && ctx.tape.choose(8) != 0 {
        *ctx.tape.pick(&quiet)
    } else {
        *ctx.tape.pick(l)
    }
}

pub fn run(ctx: &mut Ctx) -> Step {
    let Some(api) = ctx.env.plugin.as_ref() else {
        return Err(Stop::Harness(format!("plugin not loaded from {}", ctx.env.plugin_path)));
    };
    let mk = |name| Replica { eng: op(Op::Plugin, || api.new_engine()), model: Pos1::standard(), counts: [BTreeMap::new(), BTreeMap::new()], set_key: Pos1::standard().key(), hist: 0, name };
    let mut a = mk("A");
    let mut b = mk("B");
    let mut variants = [true, true];
    // start: standard (as bot_fight does) or a generator position
    let g = *ctx.tape.pick(&[0u32, 0, 8, 8, 8, 7, 2, 1, 3, 4, 5]);
    let start = gen::generate(&mut ctx.tape, g);
    set_board(ctx, &mut a, &start)?;
    set_board(ctx, &mut b, &start)?;
    let extreme = ctx.tape.choose(if ctx.tier == Tier::Thorough { 40 } else { 400 }) == 1;
    let calls = if extreme {
        1200
    } else if ctx.tier == Tier::Thorough {
        *ctx.tape.pick(&[20u32, 60, 150, 400, 800])
    } else {
        *ctx.tape.pick(&[20u32, 60, 150, 400])
    };
    let mut last: [Option<Mv>; 2] = [None, None];
    // the last move each replica proposed through evaluate (submitted later as a stale offer)
    let mut proposal: Option<Mv> = None;
    let mut trace: Vec<String> = Vec::new();
    for _ in 0..calls {
        ctx.tape.mark();
        let in_sync = a.hist == b.hist;
        let which = if extreme { 1 } else { ctx.tape.choose(16) };
        let la = a.model.legal_moves();
        if la.is_empty() && which != 15 {
            // game over on A: set a new board (F-RESTART in mid-session) or stop
            if ctx.tape.choose(2) == 0 {
                break;
            }
            let p = gen::generate(&mut ctx.tape, 8);
            set_board(ctx, &mut a, &p)?;
            set_board(ctx, &mut b, &p)?;
            trace.push(format!("set_board({})", p.fen()));
            continue;
        }
        match which {
            0 | 1 | 2 | 3 | 4 | 5 | 6 | 7 => {
                // a player submits a legal move to both replicas
                let side = a.model.stm as usize;
                let m = if extreme {
                    // a strict shuttle: undo the own previous move whenever possible, so that
                    // one position recurs every four plies for the whole session
                    match last[side] {
                        Some(prev) if la.contains(&Mv::new(prev.to, prev.from, 0)) => Mv::new(prev.to, prev.from, 0),
                        _ => choose_reversible(ctx, &a.model, None, &la),
                    }
                } else {
                    choose_reversible(ctx, &a.model, last[side], &la)
                };
                last[side] = Some(m);
                trace.push(m.text());
                let (_, fa) = submit(ctx, &mut a, &mut variants, m, "none")?;
                let (_, fb) = submit(ctx, &mut b, &mut variants, m, "none")?;
                if in_sync && fa != fb {
                    return ctx.fail(Prop::C15, "plugin.replicas-differ", String::new(), format!("equal histories, different threefold flags after {}", m.text()));
                }
            }
            8 | 9 => {
                // the driver loop of bot_fight: evaluate on the side to move, then make_move on both
                let k = ctx.tape.log_uniform(3000) as u64;
                let polls = Cell::new(0u64);
                let t = SimTimeout::new(&polls, k, k.saturating_add(SLACK));
                let bot = if a.model.stm == m1::WHITE { &mut a } else { &mut b };
                let legal = bot.model.legal_moves();
                let (mv, _score) = op(Op::Plugin, || bot.eng.evaluate(&t));
                ctx.stats.bump("c15.calls.evaluate");
                ctx.stats.add("sim.clock-ticks", polls.get());
                ctx.stats.bump("fault.clock");
                if let Some(cm) = mv {
                    let m = sut::unmv(cm);
                    if !legal.contains(&m) {
                        return ctx.fail(Prop::C15, "plugin.proposed-illegal", String::new(), format!("replica {} proposed {} which is illegal in {}", bot.name, m.text(), bot.model.fen()));
                    }
                    trace.push(format!("eval:{}", m.text()));
                    proposal = Some(m);
                    if ctx.tape.choose(6) == 5 {
                        // F-BYZ: the driver does not play the proposal now; a new board is set and
                        // the stale proposal is submitted there
                        let gsel = *ctx.tape.pick(&[0u32, 8, 7, 2]);
                        let p = gen::generate(&mut ctx.tape, gsel);
                        set_board(ctx, &mut a, &p)?;
                        set_board(ctx, &mut b, &p)?;
                        ctx.stats.bump("fault.byz.stale-proposal-after-set_board");
                        trace.push(format!("set_board({}) stale:{}", p.fen(), m.text()));
                        submit(ctx, &mut a, &mut variants, m, "stale-proposal")?;
                        submit(ctx, &mut b, &mut variants, m, "stale-proposal")?;
                        continue;
                    }
                    let fa = submit(ctx, &mut a, &mut variants, m, "none")?.1;
                    let fb = submit(ctx, &mut b, &mut variants, m, "none")?.1;
                    if in_sync && fa != fb {
                        return ctx.fail(Prop::C15, "plugin.replicas-differ", String::new(), format!("equal histories, different threefold flags after {}", m.text()));
                    }
                }
            }
            10 | 11 => {
                // F-BYZ: an illegal submission (uniform, stale duplicate, opponent's move, wrong promotion field)
                let m = match ctx.tape.choose(5) {
                    4 if proposal.is_some() => proposal.unwrap(),
                    0 | 4 => Mv::new(ctx.tape.choose(64) as u8, ctx.tape.choose(64) as u8, *ctx.tape.pick(&[0u8, 0, m1::Q, m1::N])),
                    1 => last[(a.model.stm ^ 1) as usize].unwrap_or(Mv::new(0, 0, 0)), // duplicate of the move just played
                    2 => {
                        let mut q = a.model.clone();
                        q.stm ^= 1;
                        q.ep = None;
                        let ms = q.pseudo_legal();
                        if ms.is_empty() {
                            Mv::new(0, 1, 0)
                        } else {
                            *ctx.tape.pick(&ms)
                        }
                    }
                    _ => {
                        let m = *ctx.tape.pick(&la);
                        Mv::new(m.from, m.to, if m.promo == 0 { m1::Q } else { 0 })
                    }
                };
                ctx.stats.bump("fault.byz.submission");
                trace.push(format!("byz:{}", m.text()));
                // it may by chance be legal; the oracle follows each replica's own model either way
                submit(ctx, &mut a, &mut variants, m, "byzantine")?;
                submit(ctx, &mut b, &mut variants, m, "byzantine")?;
            }
            12 => {
                // F-BYZ: delivered to one replica only
                let m = *ctx.tape.pick(&la);
                ctx.stats.bump("fault.byz.one-replica-only");
                trace.push(format!("A-only:{}", m.text()));
                submit(ctx, &mut a, &mut variants, m, "one-replica")?;
                // later moves are submitted to both and each replica answers by its own history
            }
            13 => {
                // resynchronise B with A by set_board in mid-game (F-RESTART)
                let p = a.model.clone();
                if p.hmc <= 9999 && p.fmn <= 9999 {
                    ctx.stats.bump("fault.restart.set_board-midgame");
                    set_board(ctx, &mut a, &p)?;
                    set_board(ctx, &mut b, &p)?;
                    trace.push("set_board(current)".into());
                }
            }
            14 => {
                let gg = *ctx.tape.pick(&[0u32, 8, 7, 2]);
                let p = gen::generate(&mut ctx.tape, gg);
                set_board(ctx, &mut a, &p)?;
                set_board(ctx, &mut b, &p)?;
                trace.push(format!("set_board({})", p.fen()));
            }
            _ => {
                // board() on both; replicas with equal histories must report equal boards
                let ba = board_of(&a);
                let bb = board_of(&b);
                ctx.stats.bump("c15.calls.board");
                if in_sync && !op(Op::Hash, || ba == bb && ba.zobrist() == bb.zobrist()) {
                    return ctx.fail(Prop::C15, "plugin.replicas-differ", String::new(), "equal histories, different boards".into());
                }
            }
        }
    }
    ctx.stats.bump("c15.sessions");
    if extreme {
        ctx.stats.bump("c15.extreme-sessions");
        // after a shuttle of 1200 plies the positions of the cycle have occurred about 300
        // times each: the side to move now asks its engine for a move
        for _ in 0..2 {
            let k = 40 + ctx.tape.log_uniform(2000) as u64;
            let polls = Cell::new(0u64);
            let t = SimTimeout::new(&polls, k, k.saturating_add(SLACK));
            let bot = if a.model.stm == m1::WHITE { &mut a } else { &mut b };
            let legal = bot.model.legal_moves();
            let (mv, _score) = op(Op::Plugin, || bot.eng.evaluate(&t));
            ctx.stats.bump("c15.calls.evaluate-after-saturation");
            ctx.stats.add("sim.clock-ticks", polls.get());
            if let Some(cm) = mv {
                let m = sut::unmv(cm);
                if !legal.contains(&m) {
                    return ctx.fail(Prop::C15, "plugin.proposed-illegal", "after=saturation".into(), format!("replica {} proposed {} which is illegal in {}", bot.name, m.text(), bot.model.fen()));
                }
                let fa = submit(ctx, &mut a, &mut variants, m, "none")?.1;
                let fb = submit(ctx, &mut b, &mut variants, m, "none")?.1;
                if a.hist == b.hist && fa != fb {
                    return ctx.fail(Prop::C15, "plugin.replicas-differ", String::new(), format!("equal histories, different threefold flags after {}", m.text()));
                }
            }
        }
    }
    ctx.stats.bump("runs.completed");
    let t: Vec<String> = trace.iter().take(24).cloned().collect();
    ctx.stats.sample(|| format!("{} :: {}", start.fen(), t.join(" ")));
    let mut h = crate::tape::FNV0;
    for x in &trace {
        crate::tape::fnv(&mut h, x.as_bytes());
    }
    ctx.stats.distinct.insert(h);
    if trace.len() > 8 {
        ctx.stats.distinct_nontrivial.insert(h);
    }
    Ok(())
}
