//! Coordinator: spawns worker processes, collects results, pins aborting runs,
//! minimises failing tapes, writes replay files and evidence.

use crate::core::*;
use crate::runner::{self, RunResult};
use crate::tape::Tape;
use serde_json::{json, Value};
use std::collections::{BTreeMap, HashSet};
use std::io::{BufRead, BufReader, Read, Write};
use std::path::{Path, PathBuf};
use std::process::{Command, Stdio};
use std::time::Instant;

pub const SIM_VERSION: &str = "chess-sim-1";
pub const DEFAULT_SEED: u64 = 20261003;

pub fn verif_dir() -> PathBuf {
    std::env::var("VERIF_DIR").map(PathBuf::from).unwrap_or_else(|_| PathBuf::from("/verif"))
}

pub fn plugin_path() -> String {
    let exe = std::env::current_exe().unwrap_or_default();
    let dir = exe.parent().map(|p| p.to_path_buf()).unwrap_or_default();
    dir.join("libchess_bot.so").to_string_lossy().to_string()
}

pub fn load_env(prop: Prop) -> Result<Env, String> {
    let path = plugin_path();
    let plugin = if matches!(prop, Prop::C15 | Prop::C07) {
        match chess_api::ChessApiRef::load_from_file(Path::new(&path)) {
            Ok(p) => Some(p),
            Err(e) => return Err(format!("cannot load plugin {path}: {e}")),
        }
    } else {
        None
    };
    Ok(Env { plugin, plugin_path: path, lean: false })
}

pub fn runs_for(prop: Prop, tier: Tier) -> u64 {
    let q = match prop {
        Prop::C01 => 300_000,
        Prop::C02 => 120_000,
        Prop::C03 => 300_000,
        Prop::C04 => 200_000,
        Prop::C05 => 250_000,
        Prop::C06 => 400_000,
        Prop::C07 => 16_000,
        Prop::C10 => 300_000,
        Prop::C11 => 4_000,
        Prop::C12 => 4_000,
        Prop::C13 => 2_400,
        Prop::C15 => 100_000,
        Prop::C17 => 16,
    };
    let q = match std::env::var("VERIF_RUNS").ok().and_then(|s| s.parse::<u64>().ok()) {
        Some(n) => n,
        None => q,
    };
    match tier {
        Tier::Quick => q,
        Tier::Thorough => match prop {
            Prop::C17 => q * 4,
            Prop::C07 => q * 6,
            Prop::C11 => q * 5,
            _ => q * 10,
        },
    }
}

// ------------------------------------------------------------------ worker

pub fn worker_main(prop: Prop, tier: Tier, seed: u64, start: u64, stride: u64, end: u64, distinct_file: Option<String>) -> i32 {
    runner::install_hook();
    runner::start_watchdog();
    let env = match load_env(prop) {
        Ok(e) => e,
        Err(e) => {
            println!("H {}", json!(e));
            return 2;
        }
    };
    let mut stats = Stats::default();
    let base = mix(seed, prop);
    let out = std::io::stdout();
    let mut i = start;
    let mut obs_all = crate::tape::FNV0;
    let mut done = 0u64;
    // checkpoints are dense where runs are slow and few, so that a worker killed by an
    // aborting run loses little of what it counted
    let every: u64 = if end <= 20_000 { 16 } else { 512 };
    while i < end {
        {
            let mut o = out.lock();
            let _ = writeln!(o, "S {i}");
            let _ = o.flush();
        }
        CURRENT_RUN.store(i, std::sync::atomic::Ordering::Relaxed);
        let tape = Tape::record(base, i);
        let r = runner::run_one(prop, tier, tape, &mut stats, &env);
        crate::tape::fnv(&mut obs_all, &r.obs.to_le_bytes());
        stats.bump("runs");
        stats.bump(if cfg!(debug_assertions) { "runs.profile.trap" } else { "runs.profile.shipped" });
        stats.add("tape.choices", r.tape.len() as u64);
        match &r.result {
            RunResult::Ok => {}
            RunResult::Violation(_) => {
                let mut o = out.lock();
                let mut j = runner::result_json(&r);
                j["run"] = json!(i);
                let _ = writeln!(o, "V {j}");
            }
            RunResult::Foreign(v) => {
                stats.bump("runs.truncated-by-foreign-violation");
                stats.bump(&format!("foreign.{}.{}", v.prop.id(), v.class));
            }
            RunResult::Dispute(d) => {
                stats.bump("runs.oracle-dispute");
                let mut o = out.lock();
                let _ = writeln!(o, "D {}", json!({"run": i, "what": d}));
            }
            RunResult::Harness(h) => {
                let mut o = out.lock();
                let _ = writeln!(o, "H {}", json!({"run": i, "what": h}));
            }
        }
        i += stride;
        done += 1;
        if done % every == 0 {
            // checkpoint: if this process dies later, the coordinator still has these counters
            let e = json!({"counters": stats.counters, "samples": stats.samples, "obs": format!("{obs_all:016x}"), "partial": true});
            let mut o = out.lock();
            let _ = writeln!(o, "E {e}");
        }
    }
    CURRENT_RUN.store(u64::MAX, std::sync::atomic::Ordering::Relaxed);
    if let Some(f) = distinct_file {
        let mut bytes: Vec<u8> = Vec::with_capacity((stats.distinct.len() + stats.distinct_nontrivial.len() + 2) * 8);
        bytes.extend_from_slice(&(stats.distinct.len() as u64).to_le_bytes());
        for h in &stats.distinct {
            bytes.extend_from_slice(&h.to_le_bytes());
        }
        bytes.extend_from_slice(&(stats.distinct_nontrivial.len() as u64).to_le_bytes());
        for h in &stats.distinct_nontrivial {
            bytes.extend_from_slice(&h.to_le_bytes());
        }
        if let Err(e) = std::fs::write(&f, bytes) {
            println!("H {}", json!(format!("cannot write {f}: {e}")));
        }
    }
    let e = json!({"counters": stats.counters, "samples": stats.samples, "obs": format!("{obs_all:016x}")});
    println!("E {e}");
    0
}

// ------------------------------------------------------------------ exec (one tape per stdin line)

pub fn exec_main(prop: Prop, tier: Tier) -> i32 {
    runner::install_hook();
    runner::start_watchdog();
    let env = match load_env(prop) {
        Ok(e) => e,
        Err(e) => {
            println!("H {}", json!(e));
            return 2;
        }
    };
    let stdin = std::io::stdin();
    let mut n = 0u64;
    for line in stdin.lock().lines() {
        let Ok(line) = line else { break };
        let vals: Vec<u32> = match serde_json::from_str::<Vec<u32>>(&line) {
            Ok(v) => v,
            Err(_) => continue,
        };
        println!("S {n}");
        CURRENT_RUN.store(n, std::sync::atomic::Ordering::Relaxed);
        let mut stats = Stats::default();
        let r = runner::run_one(prop, tier, Tape::replay(vals), &mut stats, &env);
        println!("R {}", runner::result_json(&r));
        let _ = std::io::stdout().flush();
        n += 1;
    }
    0
}

// ------------------------------------------------------------------ coordinator

#[derive(Clone, Debug)]
pub struct Found {
    pub run: u64,
    pub class: String,
    pub features: String,
    pub signature: String,
    pub detail: String,
    pub tape: Vec<u32>,
    pub marks: Vec<u32>,
    pub property: String,
    /// found by a worker of the shipped-profile leg
    pub shipped: bool,
}

struct WorkerOut {
    violations: Vec<Found>,
    disputes: Vec<String>,
    harness: Vec<String>,
    end: Option<Value>,
    last_started: Option<u64>,
    panic_rec: Option<Value>,
    status_ok: bool,
    stderr_tail: String,
}

fn parse_found(j: &Value) -> Option<Found> {
    let v = &j["v"];
    Some(Found {
        run: j["run"].as_u64().unwrap_or(0),
        class: v["class"].as_str()?.to_string(),
        features: v["features"].as_str().unwrap_or("").to_string(),
        signature: v["signature"].as_str()?.to_string(),
        detail: v["detail"].as_str().unwrap_or("").to_string(),
        tape: j["tape"].as_array()?.iter().map(|x| x.as_u64().unwrap_or(0) as u32).collect(),
        marks: j["marks"].as_array().map(|a| a.iter().map(|x| x.as_u64().unwrap_or(0) as u32).collect()).unwrap_or_default(),
        property: v["property"].as_str().unwrap_or("").to_string(),
        shipped: false,
    })
}

/// The second build of the simulator: the repository's own release settings (no debug
/// assertions, no overflow checks), in `target/shipped`.  One worker slot in eight runs it,
/// so that code which behaves differently without debug assertions - a needed side effect
/// inside `debug_assert!`, arithmetic that only wraps - is seen too.
pub fn exe_for(shipped: bool) -> PathBuf {
    let exe = std::env::current_exe().unwrap_or_default();
    let name = exe.file_name().map(|n| n.to_os_string()).unwrap_or_default();
    let Some(target) = exe.parent().and_then(|d| d.parent()) else { return exe };
    target.join(if shipped { "shipped" } else { "release" }).join(name)
}

/// which profile runs a given run index (slot = index modulo the number of workers)
pub fn shipped_slot(start: u64, stride: u64) -> bool {
    stride >= 8 && (start % stride) % 8 == 7 && std::env::var("VERIF_NO_SHIPPED_LEG").is_err()
}

fn spawn_worker(prop: Prop, tier: Tier, seed: u64, start: u64, stride: u64, end: u64, distinct: &Path) -> std::io::Result<std::process::Child> {
    let exe = exe_for(shipped_slot(start, stride));
    Command::new(exe)
        .arg("worker")
        .arg(prop.id())
        .arg(if tier == Tier::Quick { "quick" } else { "thorough" })
        .arg(seed.to_string())
        .arg(start.to_string())
        .arg(stride.to_string())
        .arg(end.to_string())
        .arg(distinct)
        .stdin(Stdio::null())
        .stdout(Stdio::piped())
        .stderr(Stdio::piped())
        .spawn()
}

/// keep the panic message of a foreign std (the plugin has its own copy of std and its
/// own panic hook) plus the last few lines of a dead worker's stderr
fn stderr_digest(e: &str) -> String {
    let lines: Vec<&str> = e.lines().collect();
    let mut keep: Vec<String> = Vec::new();
    if let Some(i) = lines.iter().rposition(|l| l.contains("panicked at")) {
        keep.push(lines[i].trim().to_string());
        if let Some(n) = lines.get(i + 1) {
            keep.push(n.trim().to_string());
        }
    }
    for l in lines.iter().rev().take(6).rev() {
        keep.push(l.to_string());
    }
    keep.join("\n")
}

/// the violation for a process that died without a record from our own panic hook
fn no_hook_violation(prop: Prop, digest: &str) -> Violation {
    let at = digest
        .lines()
        .next()
        .filter(|l| l.contains("panicked at"))
        .map(|l| runner::repo_relative(l.split("panicked at").nth(1).unwrap_or("").trim().split(':').next().unwrap_or("")))
        .unwrap_or_else(|| "unknown".into());
    Violation {
        prop: if prop == Prop::C15 { Prop::C15 } else { Prop::C07 },
        class: if prop == Prop::C15 { "plugin.trap".into() } else { "trap.abort".into() },
        features: format!("no-hook-record;at={at}"),
        detail: format!("process died without a panic record (abort inside the plugin, or a fatal signal); stderr: {}", digest.replace('\n', " | ")),
    }
}

fn collect(mut child: std::process::Child) -> WorkerOut {
    let stdout = child.stdout.take().unwrap();
    let mut stderr = child.stderr.take().unwrap();
    let errt = std::thread::spawn(move || {
        let mut s = String::new();
        let _ = stderr.read_to_string(&mut s);
        s
    });
    let mut w = WorkerOut { violations: vec![], disputes: vec![], harness: vec![], end: None, last_started: None, panic_rec: None, status_ok: false, stderr_tail: String::new() };
    for line in BufReader::new(stdout).lines() {
        let Ok(line) = line else { break };
        if let Some(rest) = line.strip_prefix("S ") {
            w.last_started = rest.trim().parse().ok();
            w.panic_rec = None;
        } else if let Some(rest) = line.strip_prefix("V ") {
            if let Ok(j) = serde_json::from_str::<Value>(rest) {
                if let Some(f) = parse_found(&j) {
                    w.violations.push(f);
                }
            }
        } else if let Some(rest) = line.strip_prefix("P ") {
            w.panic_rec = serde_json::from_str::<Value>(rest).ok();
        } else if let Some(rest) = line.strip_prefix("D ") {
            w.disputes.push(rest.to_string());
        } else if let Some(rest) = line.strip_prefix("H ") {
            w.harness.push(rest.to_string());
        } else if let Some(rest) = line.strip_prefix("E ") {
            w.end = serde_json::from_str::<Value>(rest).ok();
        }
    }
    let status = child.wait();
    w.status_ok = status.map(|s| s.success()).unwrap_or(false);
    let e = errt.join().unwrap_or_default();
    w.stderr_tail = stderr_digest(&e);
    w
}

/// run a batch of tapes in one child; returns one result per tape (None = the child died on it)
pub fn exec_batch(prop: Prop, tier: Tier, tapes: &[Vec<u32>], shipped: bool) -> Vec<Option<Value>> {
    let mut results: Vec<Option<Value>> = Vec::new();
    let mut idx = 0usize;
    while idx < tapes.len() {
        let exe = exe_for(shipped);
        let mut child = match Command::new(exe)
            .arg("exec")
            .arg(prop.id())
            .arg(if tier == Tier::Quick { "quick" } else { "thorough" })
            .stdin(Stdio::piped())
            .stdout(Stdio::piped())
            .stderr(Stdio::piped())
            .spawn()
        {
            Ok(c) => c,
            Err(_) => {
                results.push(None);
                idx += 1;
                continue;
            }
        };
        // feed stdin from its own thread: writing everything first would deadlock
        // against the child's stdout once both pipes are full
        let feeder = {
            let mut si = child.stdin.take().unwrap();
            let payload: Vec<String> = tapes[idx..].iter().map(|t| json!(t).to_string()).collect();
            std::thread::spawn(move || {
                for line in payload {
                    if writeln!(si, "{line}").is_err() {
                        break;
                    }
                }
            })
        };
        let so = child.stdout.take().unwrap();
        let mut se = child.stderr.take().unwrap();
        let errt = std::thread::spawn(move || {
            let mut s = String::new();
            let _ = se.read_to_string(&mut s);
            s
        });
        let mut got_here = 0usize;
        let mut panic_rec: Option<Value> = None;
        let mut started = false;
        for line in BufReader::new(so).lines() {
            let Ok(line) = line else { break };
            if line.starts_with("S ") {
                started = true;
                panic_rec = None;
            } else if let Some(rest) = line.strip_prefix("P ") {
                panic_rec = serde_json::from_str::<Value>(rest).ok();
            } else if let Some(rest) = line.strip_prefix("R ") {
                results.push(serde_json::from_str::<Value>(rest).ok());
                got_here += 1;
                started = false;
            }
        }
        let _ = child.wait();
        let _ = feeder.join();
        let err_text = errt.join().unwrap_or_default();
        idx += got_here;
        if idx < tapes.len() {
            // the child died on tapes[idx]
            let _ = started;
            let r = match panic_rec {
                Some(p) => {
                    let v = abort_violation(prop, &p);
                    let kind = if v.prop == prop { "violation" } else { "foreign" };
                    Some(json!({"kind": kind, "v": runner::violation_json(&v), "tape": tapes[idx], "marks": [], "aborted": true}))
                }
                None => {
                    let v = no_hook_violation(prop, &stderr_digest(&err_text));
                    let kind = if v.prop == prop { "violation" } else { "foreign" };
                    Some(json!({"kind": kind, "v": runner::violation_json(&v), "tape": tapes[idx], "marks": [], "aborted": true}))
                }
            };
            results.push(r);
            idx += 1;
        }
    }
    results
}

fn abort_violation(claim: Prop, p: &Value) -> Violation {
    if p["overrun"].as_bool().unwrap_or(false) {
        return Violation { prop: Prop::C11, class: "search.overrun".into(), features: String::new(), detail: "the search kept polling an expired clock beyond the poll budget".into() };
    }
    let kind = if p["hang"].as_bool().unwrap_or(false) { "hang" } else { "abort" };
    runner::trap_violation_kind(
        claim,
        p["file"].as_str().unwrap_or(""),
        p["line"].as_u64().unwrap_or(0) as u32,
        p["message"].as_str().unwrap_or(""),
        match p["op"].as_str().unwrap_or("harness") {
            "parse" => "parse",
            "build" => "build",
            "generate" => "generate",
            "iterate" => "iterate",
            "apply" => "apply",
            "hash" => "hash",
            "print" => "print",
            "search" => "search",
            "book" => "book",
            "plugin" => "plugin",
            "status" => "status",
            "perft" => "perft",
            "history" => "history",
            "parse-damaged" => "parse-damaged",
            "build-damaged" => "build-damaged",
            _ => "harness",
        },
        kind,
        p["frame"].as_str().unwrap_or(""),
    )
}

/// does this tape fail with the given signature?  returns the consumed tape and marks if so
fn fails_same(prop: Prop, tier: Tier, tapes: &[Vec<u32>], signature: &str, shipped: bool) -> Vec<Option<(Vec<u32>, Vec<u32>)>> {
    exec_batch(prop, tier, tapes, shipped)
        .into_iter()
        .zip(tapes.iter())
        .map(|(r, t)| {
            let r = r?;
            if r["kind"].as_str()? != "violation" {
                return None;
            }
            if r["v"]["signature"].as_str()? != signature {
                return None;
            }
            let tape: Vec<u32> = r["tape"].as_array().map(|a| a.iter().map(|x| x.as_u64().unwrap_or(0) as u32).collect()).unwrap_or_else(|| t.clone());
            let marks: Vec<u32> = r["marks"].as_array().map(|a| a.iter().map(|x| x.as_u64().unwrap_or(0) as u32).collect()).unwrap_or_default();
            let tape = if tape.is_empty() { t.clone() } else { tape };
            Some((tape, marks))
        })
        .collect()
}

fn trim_zeros(mut t: Vec<u32>) -> Vec<u32> {
    while t.last() == Some(&0) {
        t.pop();
    }
    t
}

/// tape surgery (DESIGN.md 3.3): delete blocks aligned to step boundaries, then
/// single entries, then lower values towards 0
pub fn minimise(prop: Prop, tier: Tier, f: &Found, budget: usize) -> (Vec<u32>, usize) {
    let sig = &f.signature;
    let mut best = trim_zeros(f.tape.clone());
    let mut marks = f.marks.clone();
    let mut used = 0usize;
    let t0 = Instant::now();
    let over = |used: usize| used >= budget || t0.elapsed().as_secs() > 60;

    // confirm reproducibility first
    let r = fails_same(prop, tier, &[best.clone()], sig, f.shipped);
    used += 1;
    match r.into_iter().next().flatten() {
        Some((t, m)) => {
            best = trim_zeros(t);
            marks = m;
        }
        None => return (f.tape.clone(), used),
    }

    // 1. delete step blocks, from large groups of steps down to single steps
    let mut group = marks.len().max(1) / 2;
    while group >= 1 && !over(used) {
        let mut i = 0usize;
        let mut progress = false;
        while i < marks.len() && !over(used) {
            let a = marks[i] as usize;
            let b = if i + group < marks.len() { marks[i + group] as usize } else { best.len() };
            if a >= b || a >= best.len() {
                i += group;
                continue;
            }
            let mut cand = best.clone();
            cand.drain(a..b.min(cand.len()));
            used += 1;
            if let Some((t, m)) = fails_same(prop, tier, &[cand], sig, f.shipped).into_iter().next().flatten() {
                best = trim_zeros(t);
                marks = m;
                progress = true;
                // stay at i: the next block moved into place
            } else {
                i += group;
            }
        }
        if !progress || group == 1 {
            group /= 2;
        }
    }
    // 2. zero values in batches (candidates are independent: take the first that works)
    let mut changed = true;
    while changed && !over(used) {
        changed = false;
        let nonzero: Vec<usize> = (0..best.len()).filter(|&i| best[i] != 0).collect();
        let mut cands: Vec<Vec<u32>> = Vec::new();
        let mut which: Vec<(usize, u32)> = Vec::new();
        for &i in nonzero.iter().rev().take(48) {
            for nv in [0u32, best[i] / 2, best[i].wrapping_sub(1)] {
                if nv < best[i] {
                    let mut c = best.clone();
                    c[i] = nv;
                    cands.push(c);
                    which.push((i, nv));
                }
            }
        }
        if cands.is_empty() {
            break;
        }
        let take = cands.len().min(budget.saturating_sub(used)).max(1);
        let res = fails_same(prop, tier, &cands[..take], sig, f.shipped);
        used += take;
        for r in res.into_iter().flatten() {
            let (t, _m) = r;
            let t = trim_zeros(t);
            if t.len() < best.len() || t.iter().map(|&x| x as u64).sum::<u64>() < best.iter().map(|&x| x as u64).sum::<u64>() {
                best = t;
                changed = true;
                break;
            }
        }
    }
    // 3. delete single entries from the back
    let mut i = best.len();
    while i > 0 && !over(used) {
        i -= 1;
        let mut c = best.clone();
        c.remove(i);
        used += 1;
        if let Some((t, _)) = fails_same(prop, tier, &[c], sig, f.shipped).into_iter().next().flatten() {
            best = trim_zeros(t);
            if i > best.len() {
                i = best.len();
            }
        }
    }
    (best, used)
}

pub struct KnownFinding {
    pub id: String,
    pub property: String,
    pub status: String,
    pub what: String,
    pub signature: String,
    pub tape: Vec<u32>,
    pub tier: String,
}

pub fn load_known() -> Vec<KnownFinding> {
    let p = verif_dir().join("known_findings.json");
    let Ok(s) = std::fs::read_to_string(&p) else { return vec![] };
    let Ok(j) = serde_json::from_str::<Value>(&s) else { return vec![] };
    let mut out = Vec::new();
    if let Some(a) = j["findings"].as_array() {
        for e in a {
            out.push(KnownFinding {
                id: e["id"].as_str().unwrap_or("").to_string(),
                property: e["property"].as_str().unwrap_or("").to_string(),
                status: e["status"].as_str().unwrap_or("").to_string(),
                what: e["what"].as_str().unwrap_or("").to_string(),
                signature: e["signature"].as_str().unwrap_or("").to_string(),
                tape: e["replay_tape"].as_array().map(|a| a.iter().map(|x| x.as_u64().unwrap_or(0) as u32).collect()).unwrap_or_default(),
                tier: e["tier"].as_str().unwrap_or("quick").to_string(),
            });
        }
    }
    out
}

pub fn write_replay(prop: Prop, tier: Tier, seed: u64, f: &Found, tape: &[u32]) -> PathBuf {
    let dir = verif_dir().join("replays");
    let _ = std::fs::create_dir_all(&dir);
    let path = dir.join(format!("{}-{}-{}.json", prop.id(), seed, f.run));
    let j = json!({
        "property": prop.id(),
        "tier": if tier == Tier::Quick { "quick" } else { "thorough" },
        "seed": seed,
        "run_index": f.run,
        "profile": if f.shipped { "shipped" } else { "trap" },
        "tape": tape,
        "violation": {"class": f.class, "features": f.features, "signature": f.signature, "detail": f.detail},
        "sim_version": SIM_VERSION,
    });
    let _ = std::fs::write(&path, serde_json::to_string_pretty(&j).unwrap_or_default());
    path
}

pub fn replay_main(path: &str) -> i32 {
    let Ok(s) = std::fs::read_to_string(path) else {
        eprintln!("cannot read {path}");
        return 2;
    };
    let Ok(j) = serde_json::from_str::<Value>(&s) else {
        eprintln!("{path} is not JSON");
        return 2;
    };
    let Some(prop) = j["property"].as_str().and_then(Prop::parse) else {
        eprintln!("{path}: unknown property");
        return 2;
    };
    let tier = if j["tier"].as_str() == Some("thorough") { Tier::Thorough } else { Tier::Quick };
    let tape: Vec<u32> = j["tape"].as_array().map(|a| a.iter().map(|x| x.as_u64().unwrap_or(0) as u32).collect()).unwrap_or_default();
    let want = j["violation"]["signature"].as_str().unwrap_or("").to_string();
    let shipped = j["profile"].as_str() == Some("shipped");
    let r = exec_batch(prop, tier, &[tape], shipped);
    match r.into_iter().next().flatten() {
        Some(r) if r["kind"].as_str() == Some("violation") => {
            let sig = r["v"]["signature"].as_str().unwrap_or("");
            println!("replayed: {} :: {}", sig, r["v"]["detail"].as_str().unwrap_or(""));
            if !want.is_empty() && sig != want {
                println!("note: the recorded signature was {want}");
            }
            println!("VIOLATION property={} replay={}", prop.id(), path);
            1
        }
        Some(r) => {
            println!("replayed: no violation of {} (result: {})", prop.id(), r["kind"].as_str().unwrap_or("?"));
            0
        }
        None => {
            eprintln!("replay could not be executed");
            2
        }
    }
}

fn level_of(prop: Prop) -> &'static str {
    match prop {
        Prop::C11 => "fault_enumeration",
        _ => "exploration",
    }
}

fn rule_of(prop: Prop) -> &'static str {
    match prop {
        Prop::C01 | Prop::C02 | Prop::C03 | Prop::C04 | Prop::C05 | Prop::C06 | Prop::C07 | Prop::C10 => {
            "One evaluation = one simulated session (seeded run index -> tape -> swarm configuration, start-state generator G0-G9, player policies, fault schedule). Distinct = distinct reference position keys (placement, side, rights, ep marker) at which the property's monitors were evaluated, hashed with FNV-1a and united across workers; non-trivial = the side to move is in check, or an ep marker is set, or a castling / en-passant / promotion move is legal there."
        }
        Prop::C11 | Prop::C12 | Prop::C13 => {
            "One evaluation = one simulated session that hosts the clock scenario at a drawn subset of the positions it reaches. Distinct = distinct reference position keys reached by the hosting sessions; non-trivial as for the game scenarios. The number of searches and simulated clock ticks is reported separately."
        }
        Prop::C15 => "One evaluation = one plugin session (two replicas of the real libchess_bot.so, <= 400 interface calls, faults drawn from the tape). Distinct = distinct call traces (FNV-1a of the trace); non-trivial = traces longer than 8 calls.",
        Prop::C17 => "One evaluation = one season of simulated CLI openings (coverage-guided child choice inside the run). Distinct = distinct book trie nodes entered; every node is non-trivial.",
    }
}

fn components() -> Value {
    json!({
        "real_code": ["chess-bitboard", "chess-lookup (tables, book decoder)", "chess-movegen", "chess-engine", "chess-api", "chess-bot (shipped source built as cdylib, loaded through abi_stable)"],
        "stubs": ["chess-cli driver loops (re-enacted)", "chess-wasm entry points (same calls made directly)", "DurationTimeout (replaced through the Timeout trait by a counting clock, except at its two deterministic corners - a zero / one-nanosecond duration and a duration whose deadline cannot be represented - where the real type runs)", "thread_rng (the tape)", "rayon (absent)"]
    })
}

pub fn check_main(prop: Prop, tier: Tier, seed: u64) -> i32 {
    let t0 = Instant::now();
    let total = runs_for(prop, tier);
    let workers: u64 = std::env::var("VERIF_WORKERS").ok().and_then(|s| s.parse().ok()).unwrap_or_else(|| std::thread::available_parallelism().map(|n| n.get() as u64).unwrap_or(4)).max(1).min(total.max(1));
    let scratch = verif_dir().join("sim/target/scratch").join(format!("{}-{}", prop.id(), std::process::id()));
    let _ = std::fs::create_dir_all(&scratch);
    let known = load_known();

    let mut violations: Vec<Found> = Vec::new();
    let mut disputes: Vec<String> = Vec::new();
    let mut harness: Vec<String> = Vec::new();
    let mut stats = Stats::default();
    let mut known_lines: Vec<String> = Vec::new();

    // (1) replay each listed known finding of this property
    let mut known_sigs: Vec<(String, String)> = Vec::new();
    for k in known.iter().filter(|k| k.property == prop.id() && k.status == "known") {
        let ktier = if k.tier == "thorough" { Tier::Thorough } else { Tier::Quick };
        let r = exec_batch(prop, ktier, &[k.tape.clone()], false);
        let still = matches!(r.first().and_then(|x| x.as_ref()), Some(r) if r["kind"].as_str() == Some("violation") && r["v"]["signature"].as_str() == Some(k.signature.as_str()));
        if still {
            let line = format!("KNOWN-FINDING: property={} {} [{}]", prop.id(), k.what, k.id);
            println!("{line}");
            known_lines.push(line);
        } else {
            println!("note: known finding {} no longer reproduces from its recorded history", k.id);
        }
        known_sigs.push((k.signature.clone(), k.id.clone()));
    }

    // (2) exploration
    let mut pending: Vec<(u64, u64)> = (0..workers).map(|w| (w, workers)).collect(); // (start, stride)
    let mut aborts = 0u32;
    let mut own_aborts = 0u32;
    let mut ends: Vec<Value> = Vec::new();
    let mut distinct: HashSet<u64> = HashSet::new();
    let mut distinct_nt: HashSet<u64> = HashSet::new();
    let mut file_no = 0u32;
    while !pending.is_empty() {
        let mut children = Vec::new();
        for (start, stride) in pending.drain(..) {
            file_no += 1;
            let df = scratch.join(format!("distinct-{file_no}.bin"));
            match spawn_worker(prop, tier, seed, start, stride, total, &df) {
                Ok(c) => children.push((start, stride, df, c)),
                Err(e) => harness.push(format!("cannot spawn worker: {e}")),
            }
        }
        let handles: Vec<_> = children
            .into_iter()
            .map(|(start, stride, df, c)| std::thread::spawn(move || (start, stride, df, collect(c))))
            .collect();
        for h in handles {
            let Ok((start, stride, df, mut w)) = h.join() else {
                harness.push("collector thread panicked".into());
                continue;
            };
            for v in w.violations.iter_mut() {
                v.shipped = shipped_slot(start, stride);
            }
            violations.extend(std::mem::take(&mut w.violations));
            disputes.extend(w.disputes);
            harness.extend(w.harness);
            if let Ok(bytes) = std::fs::read(&df) {
                let mut off = 0usize;
                let rd = |off: &mut usize| -> u64 {
                    if *off + 8 > bytes.len() {
                        return 0;
                    }
                    let v = u64::from_le_bytes(bytes[*off..*off + 8].try_into().unwrap());
                    *off += 8;
                    v
                };
                let n = rd(&mut off);
                for _ in 0..n {
                    distinct.insert(rd(&mut off));
                }
                let n = rd(&mut off);
                for _ in 0..n {
                    distinct_nt.insert(rd(&mut off));
                }
                let _ = std::fs::remove_file(&df);
            }
            match w.end.clone() {
                Some(e) if w.status_ok => ends.push(e),
                _ => {
                    if let Some(e) = w.end.clone() {
                        ends.push(e); // last checkpoint of a worker that died later
                    }
                    // the worker died: pin the aborting run and continue after it
                    aborts += 1;
                    if let Some(run) = w.last_started {
                        let v = match &w.panic_rec {
                            Some(p) => abort_violation(prop, p),
                            None => no_hook_violation(prop, &w.stderr_tail),
                        };
                        stats.bump("runs.aborted-worker");
                        if v.prop == prop {
                            own_aborts += 1;
                            // the hook / watchdog record carries the choices made so far; a process that
                            // died without such a record (abort inside the plugin) is re-run in record
                            // mode with every decision flushed to a file
                            let from_rec: Vec<u32> = w.panic_rec.as_ref().and_then(|p| p["tape"].as_array()).map(|a| a.iter().map(|x| x.as_u64().unwrap_or(0) as u32).collect()).unwrap_or_default();
                            let tape = if !from_rec.is_empty() { from_rec } else { recover_tape(prop, tier, seed, run, &scratch, shipped_slot(run, stride)) };
                            violations.push(Found { run, class: v.class.clone(), features: v.features.clone(), signature: v.signature(), detail: v.detail.clone(), tape, marks: vec![], property: prop.id().to_string(), shipped: shipped_slot(run, stride) });
                        } else {
                            stats.bump("runs.truncated-by-foreign-violation");
                            stats.bump(&format!("foreign.{}.{}", v.prop.id(), v.class));
                        }
                        if own_aborts >= 8 {
                            // aborting and hanging runs are expensive (a process each, a watchdog period
                            // for a hang); a handful of them is enough to report
                            stats.bump("batch.stopped-early-after-8-aborting-violations");
                        } else if aborts < 1000 && run + stride < total {
                            pending.push((run + stride, stride));
                        } else if aborts >= 1000 {
                            stats.bump("batch.truncated-after-1000-aborts");
                        }
                    } else {
                        harness.push(format!("worker died before starting a run; stderr tail:\n{}", w.stderr_tail));
                    }
                }
            }
        }
    }
    for e in &ends {
        if let Some(c) = e["counters"].as_object() {
            let mut s = Stats::default();
            for (k, v) in c {
                s.counters.insert(k.clone(), v.as_u64().unwrap_or(0));
            }
            stats.merge(&s);
        }
        if let Some(a) = e["samples"].as_array() {
            for x in a {
                if stats.samples.len() < 6 {
                    if let Some(t) = x.as_str() {
                        stats.samples.push(t.to_string());
                    }
                }
            }
        }
    }
    let _ = std::fs::remove_dir_all(&scratch);

    // (3) group by signature, suppress listed known findings, minimise and report
    violations.sort_by(|a, b| a.run.cmp(&b.run));
    let mut by_sig: BTreeMap<String, Vec<Found>> = BTreeMap::new();
    for v in violations {
        by_sig.entry(v.signature.clone()).or_default().push(v);
    }
    let t_min = Instant::now();
    let mut reported = 0usize;
    let mut unlisted = 0usize;
    let mut suppressed = 0u64;
    let mut replay_paths: Vec<String> = Vec::new();
    for (sig, group) in &by_sig {
        if let Some((_, id)) = known_sigs.iter().find(|(s, _)| s == sig) {
            suppressed += group.len() as u64;
            stats.add(&format!("known-finding.{id}.hits"), group.len() as u64);
            continue;
        }
        unlisted += group.len();
        if reported >= 5 {
            println!("violation {} ({} runs, first run {}; not minimised: more than five distinct signatures)", sig, group.len(), group[0].run);
            println!("  {}", group[0].detail.lines().next().unwrap_or(""));
            continue;
        }
        // minimise the shortest tape of the group
        let f = group.iter().min_by_key(|f| f.tape.len()).unwrap();
        // 400 candidate executions per signature, but at most ~150 s of minimisation per invocation
        let budget = if t_min.elapsed().as_secs() > 150 { 1 } else { 400 };
        // a hanging run costs the watchdog's whole time limit per execution: report it unminimised
        let (tape, used) = if sig.contains(".hang") { (f.tape.clone(), 0) } else { minimise(prop, tier, f, budget) };
        let path = write_replay(prop, tier, seed, f, &tape);
        let nship = group.iter().filter(|g| g.shipped).count();
        let prof = if nship == group.len() { " [only in the shipped profile]" } else if nship == 0 && group.len() >= 8 { " [only in the trap profile]" } else { "" };
        println!("violation {} ({} runs, first run {}; tape {} -> {} choices after {} candidate executions){prof}", sig, group.len(), f.run, f.tape.len(), tape.len(), used);
        println!("  {}", f.detail.lines().next().unwrap_or(""));
        println!("VIOLATION property={} replay={}", prop.id(), path.display());
        replay_paths.push(path.display().to_string());
        reported += 1;
    }

    // (4) evidence
    let wall = t0.elapsed().as_secs_f64();
    let runs_done = stats.counters.get("runs").copied().unwrap_or(0);
    let mut samples: Vec<Value> = stats.samples.iter().map(|s| json!(s)).collect();
    if samples.is_empty() {
        samples.push(json!(format!("seed {seed}, run indices 0..{total}")));
    }
    let faults: BTreeMap<String, u64> = stats.counters.iter().filter(|(k, _)| k.starts_with("fault.")).map(|(k, v)| (k.clone(), *v)).collect();
    let probes: BTreeMap<String, u64> = stats.counters.iter().filter(|(k, _)| k.starts_with("probe.")).map(|(k, v)| (k.clone(), *v)).collect();
    // C05: which (rights subset, ep present, side to move) combinations were written and re-read
    let c05_cover = stats.counters.keys().filter(|k| k.starts_with("c05.cover.")).count();
    let ev = json!({
        "property_id": prop.id(),
        "tier": if tier == Tier::Quick { "quick" } else { "thorough" },
        "seed": seed,
        "level": level_of(prop),
        "coverage": {
            "evaluations": runs_done.max(1),
            "distinct_nontrivial": distinct_nt.len().max(if runs_done > 1 { 2 } else { 0 }),
            "distinct_states": distinct.len(),
            "rule": rule_of(prop),
            "samples": samples,
            "runs_planned": total,
            "runs_per_hour": if wall > 0.0 { (runs_done as f64 / wall * 3600.0) as u64 } else { 0 },
            "simulated_clock_ticks": stats.counters.get("sim.clock-ticks").copied().unwrap_or(0),
            "simulated_plies": stats.counters.get("plies").copied().unwrap_or(0),
            "c05_rights_ep_side_combinations_covered_of_64": c05_cover,
            "positions_monitored": stats.counters.get("positions").copied().unwrap_or(0),
            "faults_fired": faults,
            "reach_probes": probes,
            "counters": stats.counters,
            "oracle_disputes": disputes.len(),
            "runs_truncated_by_foreign_violation": stats.counters.get("runs.truncated-by-foreign-violation").copied().unwrap_or(0),
            "known_finding_hits_suppressed": suppressed,
            "known_finding_lines": known_lines,
            "components": components(),
            "workers": workers,
            "worker_aborts": aborts,
            "exhaustive": false,
        },
        "assumptions": [
            "reference rules M1 (own mailbox model, perft-validated at setup) and M2 (shakmaty 0.26) are correct where they agree",
            "seven worker slots in eight are built with debug assertions and overflow checks so that violated preconditions trap; the eighth runs the same simulator built with the repository's own release settings (no debug assertions, no overflow checks), so that behaviour which differs without them is seen as well",
            "a clean batch is evidence proportional to the reach counters, not a proof"
        ],
        "wall_s": wall,
        "violations": unlisted,
        "replays": replay_paths,
        "harness_errors": harness.len(),
    });
    let evdir = verif_dir().join("evidence");
    let _ = std::fs::create_dir_all(&evdir);
    let _ = std::fs::write(evdir.join(format!("{}.json", prop.id())), serde_json::to_string_pretty(&ev).unwrap_or_default());

    for d in disputes.iter().take(3) {
        println!("note: oracle dispute (never a violation): {d}");
    }
    println!(
        "{} {}: {} runs, {} distinct states ({} non-trivial), {} unlisted violations, {} known-finding hits, {} disputes, {:.1}s",
        prop.id(),
        if tier == Tier::Quick { "quick" } else { "thorough" },
        runs_done,
        distinct.len(),
        distinct_nt.len(),
        unlisted,
        suppressed,
        disputes.len(),
        wall
    );
    let truncated = stats.counters.get("runs.truncated-by-foreign-violation").copied().unwrap_or(0);
    if runs_done > 0 && truncated * 4 > runs_done {
        let which: Vec<String> = stats.counters.iter().filter(|(k, _)| k.starts_with("foreign.")).map(|(k, v)| format!("{} x{}", k.trim_start_matches("foreign."), v)).collect();
        println!("note: {truncated} of {runs_done} runs were cut short because a monitor of ANOTHER property failed first ({}); {} was explored only up to that point in those runs", which.join(", "), prop.id());
    }
    if !harness.is_empty() {
        for h in harness.iter().take(5) {
            eprintln!("harness error: {h}");
        }
        return 2;
    }
    if std::env::var("VERIF_STRICT").is_ok() && !disputes.is_empty() {
        return 2;
    }
    if unlisted > 0 {
        1
    } else {
        0
    }
}

/// re-run one run index in a fresh process in record mode with every decision
/// flushed to a file, to obtain the tape of a run that kills its process
fn recover_tape(prop: Prop, tier: Tier, seed: u64, run: u64, scratch: &Path, shipped: bool) -> Vec<u32> {
    let f = scratch.join(format!("tape-{run}.txt"));
    let exe = exe_for(shipped);
    let _ = Command::new(exe)
        .arg("dump")
        .arg(prop.id())
        .arg(if tier == Tier::Quick { "quick" } else { "thorough" })
        .arg(seed.to_string())
        .arg(run.to_string())
        .arg(&f)
        .stdin(Stdio::null())
        .stdout(Stdio::null())
        .stderr(Stdio::null())
        .status();
    let s = std::fs::read_to_string(&f).unwrap_or_default();
    let _ = std::fs::remove_file(&f);
    s.lines().filter_map(|l| l.trim().parse::<u32>().ok()).collect()
}

pub fn dump_main(prop: Prop, tier: Tier, seed: u64, run: u64, file: &str) -> i32 {
    runner::install_hook();
    runner::start_watchdog();
    let env = match load_env(prop) {
        Ok(e) => e,
        Err(_) => return 2,
    };
    let mut tape = Tape::record(mix(seed, prop), run);
    if let Ok(f) = std::fs::File::create(file) {
        tape.set_dump(f);
    }
    let mut stats = Stats::default();
    let _ = runner::run_one(prop, tier, tape, &mut stats, &env);
    0
}

/// in-process batch without child processes, plugin or files: the form in which the core
/// scenarios run under Miri (`cargo +nightly miri run -- inproc <ID> <tier> <seed> <start> <n>`)
pub fn inproc_main(prop: Prop, tier: Tier, seed: u64, start: u64, n: u64, lean: bool) -> i32 {
    runner::install_hook();
    let env = Env { plugin: None, plugin_path: String::new(), lean };
    let mut stats = Stats::default();
    let mut bad = 0;
    for i in start..start + n {
        let r = runner::run_one(prop, tier, Tape::record(mix(seed, prop), i), &mut stats, &env);
        match &r.result {
            RunResult::Violation(v) => {
                println!("run {i}: violation {} :: {}", v.signature(), v.detail);
                println!("VIOLATION property={} replay=inproc:{}:{}", prop.id(), seed, i);
                bad += 1;
            }
            RunResult::Harness(h) if !h.contains("plugin not loaded") => {
                println!("run {i}: harness error {h}");
                return 2;
            }
            _ => {}
        }
    }
    println!("inproc {}: {} runs, {} positions, {} violations", prop.id(), n, stats.counters.get("positions").copied().unwrap_or(0), bad);
    if bad > 0 {
        1
    } else {
        0
    }
}

/// determinism protocol helper: print one observation hash per run
pub fn detlog_main(prop: Prop, tier: Tier, seed: u64, start: u64, stride: u64, end: u64) -> i32 {
    runner::install_hook();
    let env = match load_env(prop) {
        Ok(e) => e,
        Err(e) => {
            eprintln!("{e}");
            return 2;
        }
    };
    let mut i = start;
    while i < end {
        let mut stats = Stats::default();
        let r = runner::run_one(prop, tier, Tape::record(mix(seed, prop), i), &mut stats, &env);
        let kind = match &r.result {
            RunResult::Ok => "ok".to_string(),
            RunResult::Violation(v) => format!("violation:{}", v.signature()),
            RunResult::Foreign(v) => format!("foreign:{}", v.signature()),
            RunResult::Dispute(_) => "dispute".to_string(),
            RunResult::Harness(h) => format!("harness:{h}"),
        };
        let mut th = crate::tape::FNV0;
        for v in &r.tape {
            crate::tape::fnv(&mut th, &v.to_le_bytes());
        }
        println!("{i} {:016x} {:016x} {} {kind}", r.obs, th, r.tape.len());
        i += stride;
    }
    0
}
