//! Run context, violations, counters, trap attribution.

use crate::tape::{self, Tape};
use std::collections::{BTreeMap, HashSet};
use std::sync::atomic::{AtomicU32, AtomicU64, Ordering};

#[derive(Clone, Copy, PartialEq, Eq, Debug, PartialOrd, Ord)]
pub enum Prop {
    C01,
    C02,
    C03,
    C04,
    C05,
    C06,
    C07,
    C10,
    C11,
    C12,
    C13,
    C15,
    C17,
}

impl Prop {
    pub fn parse(s: &str) -> Option<Prop> {
        Some(match s {
            "C01" => Prop::C01,
            "C02" => Prop::C02,
            "C03" => Prop::C03,
            "C04" => Prop::C04,
            "C05" => Prop::C05,
            "C06" => Prop::C06,
            "C07" => Prop::C07,
            "C10" => Prop::C10,
            "C11" => Prop::C11,
            "C12" => Prop::C12,
            "C13" => Prop::C13,
            "C15" => Prop::C15,
            "C17" => Prop::C17,
            _ => return None,
        })
    }
    pub fn id(self) -> &'static str {
        match self {
            Prop::C01 => "C01",
            Prop::C02 => "C02",
            Prop::C03 => "C03",
            Prop::C04 => "C04",
            Prop::C05 => "C05",
            Prop::C06 => "C06",
            Prop::C07 => "C07",
            Prop::C10 => "C10",
            Prop::C11 => "C11",
            Prop::C12 => "C12",
            Prop::C13 => "C13",
            Prop::C15 => "C15",
            Prop::C17 => "C17",
        }
    }
}

#[derive(Clone, Debug)]
pub struct Violation {
    pub prop: Prop,
    /// which clause of the property failed, e.g. `legals.missing`
    pub class: String,
    /// discriminating features of the failing history (part of the signature)
    pub features: String,
    /// free-form detail for humans (FEN, move, ...); not part of the signature
    pub detail: String,
}

impl Violation {
    pub fn signature(&self) -> String {
        if self.features.is_empty() {
            self.class.clone()
        } else {
            format!("{}[{}]", self.class, self.features)
        }
    }
}

pub enum Stop {
    /// a monitor of the property under check failed
    Violation(Violation),
    /// a monitor of another property failed first: the run is truncated, not reported
    Foreign(Violation),
    /// the two reference models disagree, or M2 sides with the real code
    Dispute(String),
    /// a problem of the harness itself (exit 2)
    Harness(String),
}

pub type Step<T = ()> = Result<T, Stop>;

/// which kind of repository operation is executing (read by the panic hook)
#[derive(Clone, Copy, PartialEq, Eq, Debug)]
#[repr(u32)]
pub enum Op {
    Harness = 0,
    Parse,
    Build,
    Generate,
    Iterate,
    Apply,
    Hash,
    Print,
    Search,
    Book,
    Plugin,
    Status,
    /// the perft helper called with a degenerate depth (promised nothing but safety)
    Perft,
    /// the repetition table filled by the caller (not by the search): its traps are C07's
    History,
    /// parsing a damaged record / building from a damaged call sequence: what the parser and
    /// the builder owe such input is C06's (never panic, return only valid boards)
    ParseDamaged,
    BuildDamaged,
}

static CURRENT_OP: AtomicU32 = AtomicU32::new(0);
pub static CURRENT_RUN: AtomicU64 = AtomicU64::new(u64::MAX);

pub fn set_op(op: Op) {
    CURRENT_OP.store(op as u32, Ordering::Relaxed);
}
pub fn current_op() -> &'static str {
    match CURRENT_OP.load(Ordering::Relaxed) {
        1 => "parse",
        2 => "build",
        3 => "generate",
        4 => "iterate",
        5 => "apply",
        6 => "hash",
        7 => "print",
        8 => "search",
        9 => "book",
        10 => "plugin",
        11 => "status",
        12 => "perft",
        13 => "history",
        14 => "parse-damaged",
        15 => "build-damaged",
        _ => "harness",
    }
}

/// run `f` (a call into the repository) with the operation kind recorded
#[inline]
pub fn op<T>(kind: Op, f: impl FnOnce() -> T) -> T {
    let prev = CURRENT_OP.swap(kind as u32, Ordering::Relaxed);
    let r = f();
    CURRENT_OP.store(prev, Ordering::Relaxed);
    r
}

#[derive(Default, Clone)]
pub struct Stats {
    pub counters: BTreeMap<String, u64>,
    /// distinct-state hashes (position keys, or other stated measure)
    pub distinct: HashSet<u64>,
    pub distinct_nontrivial: HashSet<u64>,
    pub samples: Vec<String>,
}

impl Stats {
    #[inline]
    pub fn bump(&mut self, k: &str) {
        self.add(k, 1);
    }
    pub fn add(&mut self, k: &str, n: u64) {
        if let Some(v) = self.counters.get_mut(k) {
            *v = v.wrapping_add(n);
        } else {
            self.counters.insert(k.to_string(), n);
        }
    }
    pub fn max(&mut self, k: &str, n: u64) {
        let e = self.counters.entry(k.to_string()).or_insert(0);
        if n > *e {
            *e = n;
        }
    }
    pub fn merge(&mut self, o: &Stats) {
        for (k, v) in &o.counters {
            if k.starts_with("max.") {
                self.max(k, *v);
            } else {
                self.add(k, *v);
            }
        }
    }
    pub fn sample(&mut self, s: impl FnOnce() -> String) {
        if self.samples.len() < 4 {
            self.samples.push(s());
        }
    }
}

#[derive(Clone, Copy, PartialEq, Eq, Debug)]
pub enum Tier {
    Quick,
    Thorough,
}

pub struct Ctx<'a> {
    pub tape: Tape,
    /// the property whose violations are reported
    pub claim: Prop,
    /// the property whose monitors drive the operations of this run
    /// (differs from `claim` only for C07, which borrows every workload)
    pub mode: Prop,
    pub tier: Tier,
    pub stats: &'a mut Stats,
    /// running hash of every observation, for the determinism protocol
    pub obs: u64,
    /// extra context shared with scenarios (e.g. the loaded plugin)
    pub env: &'a Env,
}

pub struct Env {
    pub plugin: Option<chess_api::ChessApiRef>,
    pub plugin_path: String,
    /// lean mode (the Miri leg): sessions run without reference models from the first ply on
    pub lean: bool,
}

impl<'a> Ctx<'a> {
    pub fn observe(&mut self, bytes: &[u8]) {
        tape::fnv(&mut self.obs, bytes);
    }
    pub fn observe_u64(&mut self, x: u64) {
        tape::fnv(&mut self.obs, &x.to_le_bytes());
    }

    /// report a failed monitor of property `prop`
    pub fn fail<T>(&mut self, prop: Prop, class: &str, features: String, detail: String) -> Step<T> {
        let v = Violation { prop, class: class.to_string(), features, detail };
        if prop == self.claim {
            Err(Stop::Violation(v))
        } else {
            Err(Stop::Foreign(v))
        }
    }
}

pub fn mix(seed: u64, prop: Prop) -> u64 {
    let mut h = tape::FNV0;
    tape::fnv(&mut h, prop.id().as_bytes());
    seed ^ h.rotate_left(13)
}
