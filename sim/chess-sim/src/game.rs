//! S-GAME — a game session with faults (DESIGN.md 3.4), carrying the monitors
//! of C01..C06 and hosting S-ITER (C10) and S-CLOCK (C11..C13) at the
//! positions it reaches.

use crate::core::*;
use crate::refmodel::{self as m1, Mv, MoveKind, Pos1, PosKey, Status};
use crate::{clock, gen, iter, m2, sut};
use chess_movegen::Board;
use std::collections::BTreeMap;

#[derive(Clone, Copy, PartialEq, Eq, Debug)]
pub enum Policy {
    Uniform,
    Tactical,
    Reversible,
    /// the real engine under a simulated clock (expiry poll drawn log-uniformly)
    Engine,
}

pub struct Cfg {
    pub gen: u32,
    pub ply_limit: u32,
    pub policy: [Policy; 2],
    /// extra weight per move category for the tactical policy
    pub w: [u32; 8],
    pub restart_in: u32,  // a restart happens with probability 1/restart_in per ply (0 = never)
    pub corrupt_in: u32,
    pub byz: u32, // number of illegal triples offered per position
    pub hosted_in: u32, // hosted scenario (iter / clock) runs with probability 1/hosted_in per ply
    pub m2_in: u32,
}

pub struct Session {
    pub model: Pos1,
    pub board: Board,
    /// true once the current board has been produced by playing a move (not by construction)
    pub played: bool,
    pub prev_legal: Vec<Mv>,
    pub last_move: [Option<Mv>; 2],
    /// moves from the standard start, while the session has never been re-rooted
    pub from_standard: Option<Vec<Mv>>,
    /// oracles are off (rule-undefined placement accepted by the parser)
    pub sut_driven: bool,
    /// shadow replica stepped alongside for a few plies after a restart
    pub shadow: Option<(Board, u32, &'static str)>,
    pub last_kind: Option<MoveKind>,
    pub last_gave_check: bool,
}

fn draw_cfg(ctx: &mut Ctx) -> Cfg {
    let t = &mut ctx.tape;
    // generator share: constellations G3/G4/G5 get at least 40 %
    let gen = match ctx.mode {
        Prop::C12 => *t.pick(&[1u32, 2, 7, 7, 3, 4, 5, 0, 9, 10, 10, 10, 10, 10, 10, 6]),
        Prop::C13 => *t.pick(&[1u32, 1, 2, 2, 7, 7, 8, 3, 4, 5, 0, 9, 9, 9, 10]),
        Prop::C11 => *t.pick(&[1u32, 1, 2, 2, 7, 7, 8, 3, 4, 5, 0, 9, 9, 9, 10, 6]),
        Prop::C04 => *t.pick(&[0u32, 1, 8, 8, 2, 3, 4, 5, 7, 9]),
        _ => *t.pick(&[0u32, 1, 2, 3, 3, 3, 4, 4, 5, 5, 6, 7, 8, 9, 3, 4, 5, 2]),
    };
    let pol = |t: &mut crate::tape::Tape| *t.pick(&[Policy::Uniform, Policy::Tactical, Policy::Tactical, Policy::Reversible]);
    let mut p0 = pol(t);
    let mut p1 = pol(t);
    // the engine as a player, in a fraction of the sessions (it is ~100x slower than the others)
    let engine_share = match ctx.mode {
        Prop::C07 | Prop::C11 | Prop::C12 | Prop::C13 => 6,
        Prop::C15 | Prop::C17 => 0,
        _ => 24,
    };
    if engine_share > 0 && t.choose(engine_share) == 1 {
        if t.choose(2) == 0 {
            p0 = Policy::Engine;
        } else {
            p1 = Policy::Engine;
        }
        if t.choose(3) == 0 {
            p0 = Policy::Engine;
            p1 = Policy::Engine;
        }
    }
    let mut w = [0u32; 8];
    for x in w.iter_mut() {
        *x = *t.pick(&[0u32, 1, 4, 16, 64]);
    }
    let ply_limit = match ctx.mode {
        Prop::C11 | Prop::C12 | Prop::C13 => t.range(1, 30),
        Prop::C02 => t.range(1, 60),
        _ => {
            if ctx.tier == Tier::Thorough {
                *t.pick(&[8u32, 20, 40, 80, 200, 400])
            } else {
                *t.pick(&[8u32, 20, 40, 80, 200])
            }
        }
    };
    let (restart_in, corrupt_in, byz, hosted_in) = match ctx.mode {
        Prop::C01 => (*t.pick(&[0u32, 6, 12]), *t.pick(&[0u32, 0, 4]), 6, 0),
        Prop::C02 => (*t.pick(&[0u32, 12]), 0, 6, 0),
        Prop::C03 => (*t.pick(&[2u32, 4, 8]), *t.pick(&[0u32, 0, 4]), 0, 0),
        Prop::C04 => (*t.pick(&[3u32, 6]), 0, 0, 0),
        Prop::C05 => (*t.pick(&[1u32, 2, 4]), *t.pick(&[0u32, 0, 4]), 0, 0),
        Prop::C06 => (*t.pick(&[0u32, 8]), *t.pick(&[1u32, 1, 2]), 0, 0),
        Prop::C10 => (*t.pick(&[0u32, 10]), 0, 0, *t.pick(&[1u32, 2])),
        Prop::C11 | Prop::C12 | Prop::C13 => (*t.pick(&[0u32, 10]), 0, 0, *t.pick(&[2u32, 4, 8])),
        _ => (8, 8, 2, 4),
    };
    let ply_limit = if p0 == Policy::Engine || p1 == Policy::Engine { ply_limit.min(40) } else { ply_limit };
    Cfg { gen, ply_limit, policy: [p0, p1], w, restart_in, corrupt_in, byz, hosted_in, m2_in: 16 }
}

fn diff_first<T: PartialEq + Copy>(a: &[T], b: &[T]) -> Option<T> {
    a.iter().find(|x| !b.contains(x)).copied()
}

/// features of a move in a position, for violation signatures and reach probes
pub fn move_features(p: &Pos1, m: Mv) -> String {
    let kind = if (m.from as usize) < 64 && p.sq[m.from as usize] != m1::EMPTY && m1::color_of(p.sq[m.from as usize]) == p.stm {
        format!("{:?}", p.kind(m))
    } else {
        "Alien".to_string()
    };
    let checkers = p.king_sq(p.stm).map(|k| p.attackers(k, p.stm ^ 1).len()).unwrap_or(0);
    format!("kind={kind};checkers={checkers}")
}

fn gives_check(p: &Pos1, m: Mv) -> bool {
    p.make(m).in_check()
}

/// C07 only: the small text parsers are safe public calls too
fn text_forms(ctx: &mut Ctx) {
    use std::str::FromStr;
    let n = ctx.tape.range(1, 4);
    for _ in 0..n {
        let len = ctx.tape.range(0, 6);
        let mut b: Vec<u8> = Vec::new();
        for _ in 0..len {
            b.push(*ctx.tape.pick(b"abcdefghABCDEFGH0123456789-xqrbnkpQRBNKP=+ \0\xff"));
        }
        let text = String::from_utf8_lossy(&b).to_string();
        op(Op::Parse, || {
            let _ = chess_movegen::ChessMove::from_ascii_bytes(&b);
            let _ = chess_movegen::ChessMove::from_str(&text);
            let _ = chess_bitboard::Pos::from_ascii_bytes(&b);
            let _ = chess_bitboard::Pos::from_str(&text);
            let _ = chess_bitboard::File::from_ascii_bytes(&b);
            let _ = chess_bitboard::Rank::from_ascii_bytes(&b);
            let _ = chess_bitboard::File::from_str(&text);
            let _ = chess_bitboard::Rank::from_str(&text);
            let _ = chess_bitboard::Piece::from_ascii_bytes(&b);
            let _ = chess_bitboard::PromotionPiece::from_ascii_bytes(&b);
            if let Some(&c) = b.first() {
                let _ = chess_bitboard::File::from_ascii_byte(c);
                let _ = chess_bitboard::Rank::from_ascii_byte(c);
                let _ = chess_bitboard::Piece::from_ascii_byte(c);
                let _ = chess_bitboard::PromotionPiece::from_ascii_byte(c);
            }
        });
        ctx.stats.bump("c07.text-forms-parsed");
    }
}

/// compare the SUT's generated move list with the references.  Returns the
/// model's sorted legal list.
pub fn check_legals(ctx: &mut Ctx, s: &Session) -> Step<Vec<Mv>> {
    let mut l1 = s.model.legal_moves();
    l1.sort();
    let ls = op(Op::Generate, || sut::legals_sorted(&s.board));
    ctx.stats.bump("positions");
    ctx.observe_u64(ls.len() as u64);
    for m in &ls {
        ctx.observe(&[m.from, m.to, m.promo]);
    }
    let z = op(Op::Hash, || s.board.zobrist());
    ctx.observe_u64(z);
    let sample_m2 = ctx.tape.choose(16) == 0;
    if ls == l1 {
        if sample_m2 {
            match m2::legal_moves(&s.model) {
                Some(l2) => {
                    ctx.stats.bump("m2.sampled");
                    if l2 != l1 {
                        ctx.stats.bump("oracle.dispute");
                        return Err(Stop::Dispute(format!("M1 and M2 differ on {}", s.model.fen())));
                    }
                }
                None => ctx.stats.bump("m2.cannot-represent"),
            }
        }
        return Ok(l1);
    }
    // disagreement between the real code and M1: ask M2
    match m2::legal_moves(&s.model) {
        Some(l2) if l2 == l1 => {}
        Some(l2) => {
            ctx.stats.bump("oracle.dispute");
            let side = if l2 == ls { "M2 sides with the real code" } else { "three-way disagreement" };
            return Err(Stop::Dispute(format!("{side} on {}", s.model.fen())));
        }
        None => ctx.stats.bump("m2.cannot-represent.on-disagreement"),
    }
    let reached = if s.played { "played" } else { "constructed" };
    let fen = s.model.fen();
    for w in ls.windows(2) {
        if w[0] == w[1] {
            let f = format!("{};reached={reached}", move_features(&s.model, w[0]));
            return ctx.fail(Prop::C01, "legals.duplicate", f, format!("{} yielded twice in {fen}", w[0].text()));
        }
    }
    if let Some(m) = diff_first(&l1, &ls) {
        let f = format!("{};reached={reached}", move_features(&s.model, m));
        return ctx.fail(Prop::C01, "legals.missing", f, format!("legal move {} not generated in {fen}", m.text()));
    }
    if let Some(m) = diff_first(&ls, &l1) {
        let f = format!("{};reached={reached}", move_features(&s.model, m));
        return ctx.fail(Prop::C01, "legals.extra", f, format!("illegal move {} generated in {fen}", m.text()));
    }
    ctx.fail(Prop::C01, "legals.differ", format!("reached={reached}"), format!("move lists differ in {fen}"))
}

/// a selection of triples that are not legal in the model position
fn illegal_offers(ctx: &mut Ctx, s: &Session, l1: &[Mv], n: u32) -> Vec<(Mv, &'static str)> {
    let mut out: Vec<(Mv, &'static str)> = Vec::new();
    let pi = s.model.pseudo_illegal();
    for _ in 0..n {
        let which = ctx.tape.choose(6);
        let cand: Option<(Mv, &'static str)> = match which {
            0 => Some((Mv::new(ctx.tape.choose(64) as u8, ctx.tape.choose(64) as u8, *ctx.tape.pick(&[0u8, 0, m1::N, m1::B, m1::R, m1::Q])), "uniform")),
            1 if !pi.is_empty() => Some((*ctx.tape.pick(&pi), "pseudo-legal")),
            2 if !s.prev_legal.is_empty() => Some((*ctx.tape.pick(&s.prev_legal), "stale")),
            3 if !l1.is_empty() => {
                let m = *ctx.tape.pick(l1);
                let p = if m.promo == 0 { *ctx.tape.pick(&[m1::Q, m1::N, m1::R, m1::B]) } else { 0 };
                Some((Mv::new(m.from, m.to, p), "wrong-promotion-field"))
            }
            4 => {
                let mut q = s.model.clone();
                q.stm ^= 1;
                q.ep = None;
                let ms = q.pseudo_legal();
                if ms.is_empty() {
                    None
                } else {
                    Some((*ctx.tape.pick(&ms), "opponents-move"))
                }
            }
            _ => {
                // a geometric near miss: a legal move with its destination shifted by one square
                if l1.is_empty() {
                    None
                } else {
                    let m = *ctx.tape.pick(l1);
                    let d = *ctx.tape.pick(&[1i8, -1, 8, -8, 7, -7, 9, -9]);
                    let to = m.to as i8 as i16 + d as i16;
                    if (0..64).contains(&to) {
                        Some((Mv::new(m.from, to as u8, m.promo), "near-miss"))
                    } else {
                        None
                    }
                }
            }
        };
        if let Some((m, why)) = cand {
            if !l1.contains(&m) {
                out.push((m, why));
            }
        }
    }
    out
}

fn mon_c01(ctx: &mut Ctx, s: &Session, l1: &[Mv], byz: u32) -> Step {
    let fen = s.model.fen();
    for &m in l1 {
        let r = op(Op::Generate, || s.board.is_legal(sut::mv(m)));
        if !r {
            return ctx.fail(Prop::C01, "is_legal.mismatch", format!("{};answer=false", move_features(&s.model, m)), format!("is_legal({}) = false for a legal move in {fen}", m.text()));
        }
    }
    ctx.stats.add("c01.is_legal.true-cases", l1.len() as u64);
    for m in s.model.pseudo_illegal() {
        let r = op(Op::Generate, || s.board.is_legal(sut::mv(m)));
        ctx.stats.bump("c01.is_legal.pseudo-illegal-cases");
        if r {
            return ctx.fail(Prop::C01, "is_legal.mismatch", format!("{};answer=true", move_features(&s.model, m)), format!("is_legal({}) = true for a move that leaves the king attacked in {fen}", m.text()));
        }
    }
    for (m, why) in illegal_offers(ctx, s, l1, byz) {
        let r = op(Op::Generate, || s.board.is_legal(sut::mv(m)));
        ctx.stats.bump("c01.is_legal.illegal-offers");
        if r {
            return ctx.fail(Prop::C01, "is_legal.mismatch", format!("offer={why};answer=true"), format!("is_legal({}) = true for an illegal triple in {fen}", m.text()));
        }
    }
    // the masked entry point of the generator: over masks that partition the board it must
    // yield, all parts together, exactly the legal moves
    if ctx.tape.choose(4) == 3 {
        let parts: Vec<u64> = match ctx.tape.choose(4) {
            0 => (0..8).map(|f| 0x0101_0101_0101_0101u64 << f).collect(),
            1 => (0..8).map(|r| 0xffu64 << (8 * r)).collect(),
            2 => {
                let hi = ctx.tape.choose(1 << 16) as u64;
                let lo = ctx.tape.choose(1 << 16) as u64;
                let a = (hi << 16 | lo).wrapping_mul(0x9E37_79B9_7F4A_7C15);
                vec![a, !a]
            }
            _ => {
                // the destinations of the legal moves one by one, and the rest of the board
                let mut v: Vec<u64> = l1.iter().map(|m| 1u64 << m.to).collect();
                v.sort();
                v.dedup();
                let covered = v.iter().fold(0u64, |a, b| a | b);
                v.push(!covered);
                v
            }
        };
        let mut got: Vec<Mv> = Vec::new();
        for part in &parts {
            let part = *part;
            got.extend(op(Op::Generate, || s.board.legals_masked(sut::bb(part)).map(sut::unmv).collect::<Vec<Mv>>()));
        }
        got.sort();
        ctx.stats.bump("c01.masked-partitions");
        if got != l1 {
            let missing = l1.iter().find(|m| !got.contains(m));
            let extra = got.iter().find(|m| !l1.contains(m));
            let what = match (missing, extra) {
                (Some(m), _) => format!("{} missing", m.text()),
                (_, Some(m)) => format!("{} extra", m.text()),
                _ => "a move yielded twice".to_string(),
            };
            let feat = missing.or(extra).map(|m| move_features(&s.model, *m)).unwrap_or_default();
            return ctx.fail(Prop::C01, "legals.masked-partition-differs", feat, format!("legals_masked over {} masks that partition the board: {what}; {fen}", parts.len()));
        }
    }
    // the public perft helper: its leaf counts are move-list lengths, so they must equal the
    // reference's; depth 0 is a degenerate argument for which only safety (C07) is promised
    if ctx.tape.choose(8) == 7 {
        let d = match ctx.tape.choose(8) {
            0..=2 => 1usize,
            3..=5 => 2,
            6 if l1.len() <= 12 => 3,
            6 => 2,
            _ => 0,
        };
        if d == 0 {
            ctx.stats.bump("fault.degenerate-depth.perft0");
            let n = op(Op::Perft, || s.board.perft_test(0));
            ctx.observe_u64(n as u64);
        } else {
            fn perft(p: &Pos1, d: usize) -> u64 {
                let l = p.legal_moves();
                if d == 1 {
                    return l.len() as u64;
                }
                l.iter().map(|&m| perft(&p.make(m), d - 1)).sum()
            }
            let want = perft(&s.model, d);
            // (the helper applies moves as well: a trap inside it is C07's; only its counts are judged here)
            let got = op(Op::Perft, || s.board.perft_test(d)) as u64;
            ctx.stats.bump("c01.perft-counts");
            ctx.observe_u64(got);
            if got != want {
                fn perft2(p: &Pos1, d: usize) -> Option<u64> {
                    let l = m2::legal_moves(p)?;
                    if d == 1 {
                        return Some(l.len() as u64);
                    }
                    let mut n = 0;
                    for &m in &l {
                        n += perft2(&p.make(m), d - 1)?;
                    }
                    Some(n)
                }
                if let Some(w2) = perft2(&s.model, d) {
                    if w2 != want {
                        ctx.stats.bump("oracle.dispute");
                        return Err(Stop::Dispute(format!("perft({d}) M1 {want} M2 {w2} on {fen}")));
                    }
                }
                return ctx.fail(Prop::C01, "legals.perft-count-differs", format!("depth={d}"), format!("perft_test({d}) = {got}, reference {want}, in {fen}"));
            }
        }
    }
    // now and then: every one of the 64 x 64 x 5 triples
    if ctx.claim == Prop::C01 && ctx.tape.choose(600) == 599 {
        ctx.stats.bump("c01.is_legal.full-triple-sweeps");
        for from in 0..64u8 {
            for to in 0..64u8 {
                for promo in [0u8, m1::N, m1::B, m1::R, m1::Q] {
                    let m = Mv::new(from, to, promo);
                    let want = l1.binary_search(&m).is_ok();
                    let got = op(Op::Generate, || s.board.is_legal(sut::mv(m)));
                    if got != want {
                        return ctx.fail(Prop::C01, "is_legal.mismatch", format!("offer=sweep;answer={got}"), format!("is_legal({}) = {got}, reference {want}, in {fen}", m.text()));
                    }
                }
            }
        }
    }
    Ok(())
}

/// compare a read-back SUT position with the model successor, component by component
fn diff_component(got: &Pos1, want: &Pos1) -> Option<(&'static str, String)> {
    if got.sq != want.sq {
        let s = (0..64).find(|&i| got.sq[i] != want.sq[i]).unwrap();
        return Some(("placement", format!("square {} holds {} expected {}", s, got.sq[s], want.sq[s])));
    }
    if got.stm != want.stm {
        return Some(("turn", format!("{} vs {}", got.stm, want.stm)));
    }
    if got.cr != want.cr {
        return Some(("rights", format!("{:?} vs {:?}", got.cr, want.cr)));
    }
    if got.ep != want.ep {
        return Some(("ep", format!("{:?} vs {:?}", got.ep, want.ep)));
    }
    if got.hmc != want.hmc {
        return Some(("halfmove", format!("{} vs {}", got.hmc, want.hmc)));
    }
    if got.fmn != want.fmn {
        return Some(("fullmove", format!("{} vs {}", got.fmn, want.fmn)));
    }
    None
}

/// apply a move through one of the three checked operations
fn apply_checked(b: &Board, m: Mv, which: u32) -> Option<Board> {
    let mv = sut::mv(m);
    op(Op::Apply, || match which {
        0 => b.move_new(mv),
        1 => {
            let mut c = *b;
            if c.move_mut(mv) {
                Some(c)
            } else {
                None
            }
        }
        _ => {
            let mut out = Board::standard();
            if b.move_into(mv, &mut out) {
                Some(out)
            } else {
                None
            }
        }
    })
}

const APPLY_NAMES: [&str; 3] = ["move_new", "move_mut", "move_into"];

fn clocks_in_range(p: &Pos1) -> bool {
    p.hmc < 65_000 && p.fmn < 65_000
}

fn mon_c02(ctx: &mut Ctx, s: &Session, l1: &[Mv], byz: u32) -> Step {
    let fen = s.model.fen();
    // successors are judged relative to the board in hand: if that board already differs from
    // its position (a loader put it there; a move would have been caught by the sync check of
    // its own ply), the difference is not the move operations' and the monitor stands down
    if clocks_in_range(&s.model) {
        if let Some(comp) = op(Op::Print, || sut::load_mismatch(&s.board, &s.model)) {
            if !s.played {
                return fail_any(ctx, &[(Prop::C05, "fen.parsed-differs")], format!("component={comp}"), format!("the loaded board for {fen} differs in {comp}"));
            }
        }
    }
    if clocks_in_range(&s.model) {
        for &m in l1 {
            let which = ctx.tape.choose(3);
            let want = s.model.make(m);
            let feat = format!("{};op={}", move_features(&s.model, m), APPLY_NAMES[which as usize]);
            let Some(nb) = apply_checked(&s.board, m, which) else {
                return ctx.fail(Prop::C02, "gate.refused-legal", feat, format!("{} refused {} in {fen}", APPLY_NAMES[which as usize], m.text()));
            };
            ctx.stats.bump("c02.successors");
            let got = match op(Op::Print, || sut::read_board(&nb)) {
                Ok(g) => g,
                Err(e) => return ctx.fail(Prop::C02, "succ.partition", feat, format!("after {} in {fen}: {e}", m.text())),
            };
            if let Some((comp, d)) = diff_component(&got, &want) {
                // placement disagreements are arbitrated by M2
                if comp == "placement" {
                    if let Some((sq2, _)) = m2::successor_placement(&s.model, m) {
                        if sq2 != want.sq {
                            ctx.stats.bump("oracle.dispute");
                            return Err(Stop::Dispute(format!("M1/M2 successor placement differ after {} in {fen}", m.text())));
                        }
                    }
                }
                return ctx.fail(Prop::C02, &format!("succ.{comp}"), feat, format!("after {} in {fen}: {d}", m.text()));
            }
        }
    }
    // now and then: every one of the 64 x 64 x 5 triples through a drawn checked operation
    if ctx.tape.choose(1500) == 1499 {
        ctx.stats.bump("c02.full-triple-sweeps");
        let which = ctx.tape.choose(3);
        let before = format!("{:?}", s.board);
        for from in 0..64u8 {
            for to in 0..64u8 {
                for promo in [0u8, m1::N, m1::B, m1::R, m1::Q] {
                    let m = Mv::new(from, to, promo);
                    if l1.binary_search(&m).is_ok() {
                        continue;
                    }
                    if apply_checked(&s.board, m, which).is_some() {
                        return ctx.fail(Prop::C02, "gate.accepted-illegal", format!("offer=sweep;op={}", APPLY_NAMES[which as usize]), format!("{} accepted illegal {} in {fen}", APPLY_NAMES[which as usize], m.text()));
                    }
                }
            }
        }
        if format!("{:?}", s.board) != before {
            return ctx.fail(Prop::C02, "gate.mutated-on-refusal", "offer=sweep".into(), format!("the board changed while refusing illegal triples in {fen}"));
        }
    }
    // F-BYZ: illegal triples offered to the checked operations
    let before = format!("{:?}", s.board);
    for (m, why) in illegal_offers(ctx, s, l1, byz) {
        ctx.stats.bump("fault.byz.illegal-offer");
        ctx.stats.bump(&format!("fault.byz.{why}"));
        for which in 0..3u32 {
            let mv = sut::mv(m);
            let feat = format!("offer={why};op={}", APPLY_NAMES[which as usize]);
            let (accepted, after, untouched) = op(Op::Apply, || match which {
                0 => (s.board.move_new(mv).is_some(), format!("{:?}", s.board), true),
                1 => {
                    let mut c = s.board;
                    let r = c.move_mut(mv);
                    (r, format!("{c:?}"), true)
                }
                _ => {
                    let sentinel = Board::standard();
                    let mut out = sentinel;
                    let r = s.board.move_into(mv, &mut out);
                    (r, format!("{:?}", s.board), format!("{out:?}") == format!("{sentinel:?}"))
                }
            });
            if accepted {
                return ctx.fail(Prop::C02, "gate.accepted-illegal", feat, format!("{} accepted illegal {} in {fen}", APPLY_NAMES[which as usize], m.text()));
            }
            if after != before || !untouched {
                return ctx.fail(Prop::C02, "gate.mutated-on-refusal", feat, format!("{} refused {} but changed its receiver/output in {fen}", APPLY_NAMES[which as usize], m.text()));
            }
        }
    }
    Ok(())
}

fn mon_c03_status(ctx: &mut Ctx, s: &Session, l1: &[Mv]) -> Step {
    let fen = s.model.fen();
    let chk = s.model.in_check();
    let last = format!("last={:?};gave_check={}", s.last_kind, s.last_gave_check);
    let got = op(Op::Status, || s.board.in_check());
    if got != chk {
        if let Some(c2) = m2::is_check(&s.model) {
            if c2 != chk {
                ctx.stats.bump("oracle.dispute");
                return Err(Stop::Dispute(format!("M1/M2 check status differ on {fen}")));
            }
        }
        return ctx.fail(Prop::C03, "status.in_check", last, format!("in_check() = {got}, reference {chk}, in {fen}"));
    }
    let want = if l1.is_empty() && chk {
        Status::CheckMate
    } else if l1.is_empty() || s.model.hmc >= 100 {
        Status::Draw
    } else if chk {
        Status::Check
    } else {
        Status::Running
    };
    let st = op(Op::Status, || sut::status(&s.board));
    match want {
        Status::CheckMate => ctx.stats.bump("probe.checkmate"),
        Status::Draw if l1.is_empty() => ctx.stats.bump("probe.stalemate"),
        Status::Draw => ctx.stats.bump("probe.draw-100"),
        Status::Check => ctx.stats.bump("probe.check"),
        _ => {}
    }
    if st != want {
        return ctx.fail(Prop::C03, "status.state", format!("{last};want={want:?};got={st:?}"), format!("state() = {st:?}, reference {want:?}, in {fen}"));
    }
    Ok(())
}

/// everything the public surface shows of a board, for indistinguishability checks
struct Surface {
    legals: Vec<Mv>,
    in_check: bool,
    state: Status,
    zobrist: u64,
    display: String,
    debug: String,
    hmc: u16,
    fmn: u16,
}

fn surface(b: &Board) -> Surface {
    Surface {
        legals: op(Op::Generate, || sut::legals_sorted(b)),
        in_check: op(Op::Status, || b.in_check()),
        state: op(Op::Status, || sut::status(b)),
        zobrist: op(Op::Hash, || b.zobrist()),
        display: op(Op::Print, || b.to_string()),
        debug: op(Op::Print, || format!("{b:?}")),
        hmc: b.half_move_clock(),
        fmn: b.full_move_clock(),
    }
}

/// report under whichever of the listed properties is being checked; the
/// first entry is used for foreign truncation
fn fail_any<T>(ctx: &mut Ctx, options: &[(Prop, &str)], features: String, detail: String) -> Step<T> {
    for (p, class) in options {
        if *p == ctx.claim {
            return ctx.fail(*p, class, features, detail);
        }
    }
    let (p, class) = options[0];
    ctx.fail(p, class, features, detail)
}

/// compare a live board with a replica recovered from scratch
fn compare_replica(ctx: &mut Ctx, live: &Board, replica: &Board, path: &'static str, features: &str, fen: &str) -> Step {
    let a = surface(live);
    let b = surface(replica);
    let f = format!("{features};path={path}");
    if a.legals != b.legals {
        return fail_any(ctx, &[(Prop::C03, "restart.legals"), (Prop::C05, "fen.reparse-differs.derived"), (Prop::C01, "legals.differ-between-loads")], f, format!("legal moves differ between two boards for the same position ({fen}): {:?} vs {:?}", a.legals.iter().map(|m| m.text()).collect::<Vec<_>>(), b.legals.iter().map(|m| m.text()).collect::<Vec<_>>()));
    }
    if a.in_check != b.in_check {
        return fail_any(ctx, &[(Prop::C03, "restart.in_check"), (Prop::C05, "fen.reparse-differs.derived")], f, format!("in_check differs ({fen})"));
    }
    if a.state != b.state {
        return fail_any(ctx, &[(Prop::C03, "restart.state"), (Prop::C05, "fen.reparse-differs.derived")], f, format!("state differs ({fen})"));
    }
    if a.zobrist != b.zobrist {
        return fail_any(ctx, &[(Prop::C04, "hash.incremental-vs-scratch"), (Prop::C03, "restart.hash"), (Prop::C05, "fen.reparse-differs.hash")], f, format!("zobrist {} (moved) vs {} (recovered) ({fen})", a.zobrist, b.zobrist));
    }
    if a.hmc != b.hmc || a.fmn != b.fmn {
        return fail_any(ctx, &[(Prop::C05, "fen.reparse-differs.clocks"), (Prop::C03, "restart.display")], f, format!("clocks differ ({fen})"));
    }
    if a.display != b.display {
        return fail_any(ctx, &[(Prop::C03, "restart.display"), (Prop::C05, "fen.not-idempotent")], f, format!("Display differs: {:?} vs {:?}", a.display, b.display));
    }
    if a.debug != b.debug {
        return fail_any(ctx, &[(Prop::C03, "restart.debug"), (Prop::C05, "fen.reparse-differs.derived")], f, format!("Debug rendering differs ({fen}):\n{}\nvs\n{}", a.debug, b.debug));
    }
    let eq = op(Op::Hash, || live == replica);
    if !eq {
        // (not C04's: its statement constrains the hashes of boards that compare equal, it does
        // not promise that boards of one position compare equal - that is C05's and C03's)
        return fail_any(ctx, &[(Prop::C05, "fen.reparse-differs.eq"), (Prop::C03, "restart.display")], f, format!("moved and recovered board compare unequal ({fen})"));
    }
    Ok(())
}

/// F-RESTART: drop the in-memory board and recover it from durable state
fn restart(ctx: &mut Ctx, s: &mut Session) -> Step {
    let fen = s.model.fen();
    let features = format!("last={:?};gave_check={}", s.last_kind, s.last_gave_check);
    ctx.stats.bump("fault.restart");
    if s.model.in_check() {
        ctx.stats.bump("probe.restart-in-check");
    }
    if s.model.ep.is_some() {
        ctx.stats.bump("probe.restart-with-ep");
    }
    if s.model.hmc > 9999 || s.model.fmn > 9999 {
        return Ok(()); // outside the textual clock range of the properties
    }
    let mut recovered: Option<Board> = None;
    // path 1: the model's canonical text through the real parser
    let via_model = op(Op::Parse, || chess_movegen::fen::parse_fen(fen.as_bytes()));
    match via_model {
        Ok(r) => {
            ctx.stats.bump("fault.restart.parser-model-text");
            compare_replica(ctx, &s.board, &r, "parser", &features, &fen)?;
            recovered = Some(r);
        }
        Err(e) => {
            return fail_any(ctx, &[(Prop::C06, "parse.rejected-canonical"), (Prop::C05, "fen.reparse-rejected")], features, format!("canonical FEN {fen:?} rejected: {e:?}"));
        }
    }
    // path 2: the program's own text
    let own = op(Op::Print, || s.board.to_string());
    if matches!(ctx.mode, Prop::C05 | Prop::C03 | Prop::C07 | Prop::C06) {
        if own != fen {
            let field = own.split(' ').zip(fen.split(' ')).position(|(a, b)| a != b).map(|i| i + 1).unwrap_or(0);
            return fail_any(ctx, &[(Prop::C05, "fen.writer")], format!("field={field};stm={};ep={}", s.model.stm, s.model.ep.is_some()), format!("Display wrote {own:?}, reference writer {fen:?}"));
        }
        match op(Op::Parse, || own.parse::<Board>()) {
            Ok(r) => {
                ctx.stats.bump("fault.restart.parser-own-text");
                compare_replica(ctx, &s.board, &r, "own-text", &features, &fen)?;
                let again = op(Op::Print, || r.to_string());
                if again != own {
                    return fail_any(ctx, &[(Prop::C05, "fen.not-idempotent")], features, format!("{own:?} -> parse -> {again:?}"));
                }
            }
            Err(e) => {
                return fail_any(ctx, &[(Prop::C05, "fen.reparse-rejected"), (Prop::C06, "parse.rejected-canonical")], format!("stm={};ep={}", s.model.stm, s.model.ep.is_some()), format!("own text {own:?} rejected: {e:?}"));
            }
        }
    }
    // C04: every component of the position must influence the hash.  Positions that differ
    // from this one in exactly one castling right, in the en-passant marker or in the side
    // to move are built from text, and neither zobrist() nor what `Hash` feeds a hasher may
    // coincide with this position's (a collision of good 64-bit keys is out of the question)
    if matches!(ctx.mode, Prop::C04 | Prop::C07) {
        let trait_hash = |b: &Board| -> u64 {
            use std::hash::{Hash, Hasher};
            let mut h = std::collections::hash_map::DefaultHasher::new();
            b.hash(&mut h);
            h.finish()
        };
        let base = s.board;
        let (z0, h0) = op(Op::Hash, || (base.zobrist(), trait_hash(&base)));
        let mut variants: Vec<(Pos1, String)> = Vec::new();
        for i in 0..4 {
            if s.model.cr[i] {
                let mut q = s.model.clone();
                q.cr[i] = false;
                variants.push((q, format!("right{i}")));
            }
        }
        if s.model.ep.is_some() {
            let mut q = s.model.clone();
            q.ep = None;
            variants.push((q, "ep".into()));
        }
        {
            let mut q = s.model.clone();
            q.stm ^= 1;
            q.ep = None;
            let mut r = s.model.clone();
            r.ep = None;
            // compare like with like: both without ep marker
            if q.validity().is_ok() && s.model.ep.is_none() {
                variants.push((q, "side".into()));
            }
            let _ = r;
        }
        for (q, what) in variants {
            if q.validity().is_err() {
                continue;
            }
            let loaded = op(Op::Parse, || sut::to_board(&q)).ok().filter(|vb| op(Op::Print, || sut::load_mismatch(vb, &q)).is_none());
            if let Some(vb) = loaded {
                ctx.stats.bump("c04.component-probes");
                let (z1, h1) = op(Op::Hash, || (vb.zobrist(), trait_hash(&vb)));
                if z1 == z0 {
                    return ctx.fail(Prop::C04, "hash.component-ignored", format!("component={};via=zobrist", what.trim_end_matches(char::is_numeric)), format!("{} and {} differ in {what} but have the same zobrist() {z0}", fen, q.fen()));
                }
                if h1 == h0 {
                    return ctx.fail(Prop::C04, "hash.component-ignored", format!("component={};via=Hash", what.trim_end_matches(char::is_numeric)), format!("{} and {} differ in {what} but feed the same value to a Hasher", fen, q.fen()));
                }
                // the key this component contributes, as the hash really uses it (the two
                // positions differ in nothing else), must not be the key of another kind of
                // component: an en-passant file that hashes like a pawn on a square, say
                let delta = z0 ^ z1;
                let comp = what.trim_end_matches(char::is_numeric);
                for (kind, keys) in table_keys() {
                    if *kind != comp && keys.contains(&delta) {
                        return ctx.fail(Prop::C04, "hash.component-key-clash", format!("component={comp};with={kind}"), format!("{} and {} differ in {what} only; the difference of their hashes, {delta:#x}, is the key of a {kind} component", fen, q.fen()));
                    }
                }
                ctx.stats.bump("c04.effective-key-probes");
            }
        }
    }
    // path 3: the builder (positions without castling rights only)
    if let Some(r) = op(Op::Build, || sut::to_board_builder(&s.model)) {
        match r {
            Ok(r) => {
                ctx.stats.bump("fault.restart.builder");
                compare_replica(ctx, &s.board, &r, "builder", &features, &fen)?;
                if ctx.tape.choose(3) == 0 {
                    recovered = Some(r);
                }
            }
            Err(e) => {
                return fail_any(ctx, &[(Prop::C05, "recover.paths-differ")], features, format!("builder rejected {fen:?}: {e}"));
            }
        }
    }
    // path 3b: the builder again, square by square with detours: refused placements on
    // occupied squares, pieces removed and put back, wrong pieces placed and removed
    if !s.model.cr.iter().any(|&x| x) && ctx.tape.choose(2) == 1 {
        let r = builder_with_detours(ctx, &s.model);
        match r {
            Ok(r) => {
                ctx.stats.bump("fault.restart.builder-with-detours");
                compare_replica(ctx, &s.board, &r, "builder-detours", &features, &fen)?;
            }
            Err(e) => {
                return fail_any(ctx, &[(Prop::C05, "recover.paths-differ")], features, format!("builder (with detours) rejected {fen:?}: {e}"));
            }
        }
    }
    // path 4: constructor + replay of the game so far
    if let Some(hist) = &s.from_standard {
        if hist.len() <= 40 {
            let mut b = Board::standard();
            let mut ok = true;
            for m in hist {
                if !op(Op::Apply, || b.move_mut(sut::mv(*m))) {
                    ok = false;
                    break;
                }
            }
            if ok {
                ctx.stats.bump("fault.restart.constructor-replay");
                compare_replica(ctx, &s.board, &b, "constructor", &features, &fen)?;
            }
        }
    }
    // the session continues on the recovered replica; the old live board is
    // stepped alongside for a few plies and must stay indistinguishable
    if let Some(r) = recovered {
        let j = ctx.tape.choose(7);
        let live = s.board;
        s.board = r;
        s.played = false;
        s.shadow = if j > 0 { Some((live, j, "shadow")) } else { None };
    }
    Ok(())
}

/// rebuild `p` through `BoardBuilder` with a drawn sequence of detours that must not
/// change the result (positions without castling rights only)
fn builder_with_detours(ctx: &mut Ctx, p: &Pos1) -> Result<Board, String> {
    let mut b = Board::builder();
    let start = ctx.tape.choose(64) as u8;
    let detours = ctx.tape.range(1, 6);
    let mut placed: Vec<u8> = Vec::new();
    let mut budget = detours;
    for i in 0..64u8 {
        let sq = (start.wrapping_add(i)) & 63;
        let x = p.sq[sq as usize];
        if x != m1::EMPTY {
            let ok = op(Op::Build, || b.place(sut::pos(sq), sut::color(m1::color_of(x)), sut::piece(m1::kind_of(x))).is_ok());
            if !ok {
                return Err(format!("place refused on empty square {sq}"));
            }
            placed.push(sq);
        }
        if budget > 0 && !placed.is_empty() && ctx.tape.choose(8) == 0 {
            budget -= 1;
            let victim = *ctx.tape.pick(&placed);
            let vx = p.sq[victim as usize];
            match ctx.tape.choose(4) {
                0 => {
                    // a placement on an occupied square must be refused and change nothing
                    let k = *ctx.tape.pick(&[m1::P, m1::N, m1::B, m1::R, m1::Q, m1::K]);
                    let c = ctx.tape.choose(2) as u8;
                    let refused = op(Op::Build, || b.place(sut::pos(victim), sut::color(c), sut::piece(k)).is_err());
                    if !refused {
                        return Err(format!("place on occupied square {victim} was not refused"));
                    }
                    ctx.stats.bump("fault.builder.refused-placement");
                }
                1 => {
                    // remove a piece and put it back
                    op(Op::Build, || {
                        b.remove(sut::pos(victim));
                    });
                    let ok = op(Op::Build, || b.place(sut::pos(victim), sut::color(m1::color_of(vx)), sut::piece(m1::kind_of(vx))).is_ok());
                    if !ok {
                        return Err(format!("re-placing on {victim} refused"));
                    }
                }
                2 => {
                    // a wrong piece on a square that stays empty in the end, removed again
                    let free: Vec<u8> = (0..64u8).filter(|&q| p.sq[q as usize] == m1::EMPTY && !placed.contains(&q)).collect();
                    if !free.is_empty() {
                        let q = *ctx.tape.pick(&free);
                        let k = *ctx.tape.pick(&[m1::P, m1::N, m1::B, m1::R, m1::Q]);
                        let c = ctx.tape.choose(2) as u8;
                        let _ = op(Op::Build, || b.place(sut::pos(q), sut::color(c), sut::piece(k)).is_ok());
                        op(Op::Build, || {
                            b.remove(sut::pos(q));
                        });
                    }
                }
                _ => {
                    // removing an empty square is a no-op
                    let free: Vec<u8> = (0..64u8).filter(|&q| p.sq[q as usize] == m1::EMPTY && !placed.contains(&q)).collect();
                    if !free.is_empty() {
                        let q = *ctx.tape.pick(&free);
                        op(Op::Build, || {
                            b.remove(sut::pos(q));
                        });
                    }
                }
            }
        }
    }
    b.turn(sut::color(p.stm));
    b.enpassant(p.ep.map(sut::file));
    b.half_move_clock(p.hmc as u16);
    b.full_move_clock(p.fmn as u16);
    op(Op::Build, || b.build()).map_err(|e| format!("{e:?}"))
}

/// C05 monitors that need no restart fault: text against the reference writer etc.
fn mon_c05(ctx: &mut Ctx, s: &Session) -> Step {
    if s.model.hmc > 9999 || s.model.fmn > 9999 {
        return Ok(());
    }
    let fen = s.model.fen();
    let own = op(Op::Print, || s.board.to_string());
    ctx.stats.bump("c05.texts");
    let rights_idx = (s.model.cr[0] as u64) | (s.model.cr[1] as u64) << 1 | (s.model.cr[2] as u64) << 2 | (s.model.cr[3] as u64) << 3;
    ctx.stats.bump(&format!("c05.cover.rights{rights_idx:02}.ep{}.stm{}", s.model.ep.is_some() as u8, s.model.stm));
    if own != fen {
        let field = own.split(' ').zip(fen.split(' ')).position(|(a, b)| a != b).map(|i| i + 1).unwrap_or(0);
        return ctx.fail(Prop::C05, "fen.writer", format!("field={field};stm={};ep={}", s.model.stm, s.model.ep.is_some()), format!("Display wrote {own:?}, reference writer {fen:?}"));
    }
    Ok(())
}

// ---------------------------------------------------------------- F-CORRUPT

fn corrupt_text(ctx: &mut Ctx, text: &str, other: &str) -> (Vec<u8>, String) {
    let mut b: Vec<u8> = text.as_bytes().to_vec();
    let n = ctx.tape.range(1, 3);
    let mut ops = Vec::new();
    if ctx.tape.choose(12) == 11 {
        // not derived from any record: a string over the FEN alphabet plus a few hostile bytes
        let len = ctx.tape.log_uniform(120);
        b.clear();
        for _ in 0..len {
            b.push(*ctx.tape.pick(b"pnbrqkPNBRQK12345678//// wb-KQkqabcdefgh36090 \0\xff\x80\t\n9"));
        }
        return (b, "random-bytes".to_string());
    }
    for _ in 0..n {
        let which = ctx.tape.choose(13);
        let len = b.len() as u32;
        match which {
            12 => {
                // a record with a line ending or blanks around it (what a shell or a file gives)
                let tail = *ctx.tape.pick(&["\n", "\r\n", " ", "  ", "\t", " \n"]);
                if ctx.tape.choose(4) == 0 {
                    let mut nb = tail.as_bytes().to_vec();
                    nb.extend_from_slice(&b);
                    b = nb;
                } else {
                    b.extend_from_slice(tail.as_bytes());
                }
                ops.push("whitespace-around");
            }
            11 => {
                // flood: whole ranks of one colour's pieces (far more than sixteen a side)
                let s = String::from_utf8_lossy(&b).to_string();
                let mut f: Vec<String> = s.split(' ').map(|x| x.to_string()).collect();
                if !f.is_empty() {
                    let mut rows: Vec<String> = f[0].split('/').map(|x| x.to_string()).collect();
                    let white = ctx.tape.choose(2) == 0;
                    if ctx.tape.choose(2) == 1 && rows.len() == 8 {
                        // the shape that needs the longest move list: eight pawns about to
                        // promote plus eight knights or queens of the same colour
                        let (pawn_row, other_row) = if white { (1usize, 4usize) } else { (6usize, 3usize) };
                        let p = if white { 'P' } else { 'p' };
                        let k = *ctx.tape.pick(&['n', 'q', 'n']);
                        let k = if white { k.to_ascii_uppercase() } else { k };
                        if !rows[pawn_row].to_ascii_lowercase().contains('k') && !rows[other_row].to_ascii_lowercase().contains('k') {
                            rows[pawn_row] = std::iter::repeat(p).take(8).collect();
                            rows[other_row] = std::iter::repeat(k).take(8).collect();
                            // the promotion rank itself stays as it is; make the flooded side move
                            if f.len() > 1 {
                                f[1] = if white { "w".into() } else { "b".into() };
                            }
                        }
                    }
                    let floods = ctx.tape.range(0, 2);
                    for _ in 0..floods {
                        if rows.is_empty() {
                            break;
                        }
                        let r = ctx.tape.choose(rows.len() as u32) as usize;
                        if rows[r].contains('k') || rows[r].contains('K') {
                            continue;
                        }
                        let k = *ctx.tape.pick(&['n', 'n', 'q', 'r', 'b', 'p']);
                        let k = if white { k.to_ascii_uppercase() } else { k };
                        rows[r] = std::iter::repeat(k).take(8).collect();
                    }
                    f[0] = rows.join("/");
                    b = f.join(" ").into_bytes();
                    ops.push("flood-ranks");
                }
            }
            0 if len > 0 => {
                let i = ctx.tape.choose(len) as usize;
                let bit = ctx.tape.choose(8);
                b[i] ^= 1 << bit;
                ops.push("bitflip");
            }
            1 if len > 0 => {
                let i = ctx.tape.choose(len) as usize;
                b.truncate(i);
                ops.push("truncate");
            }
            2 if len > 0 => {
                let i = ctx.tape.choose(len) as usize;
                b.remove(i);
                ops.push("delete");
            }
            3 => {
                let i = ctx.tape.choose(len + 1) as usize;
                let c = *ctx.tape.pick(b"pnbrqkPNBRQK12345678/ wb-KQkqabcdefgh36090\0\xff\x80\t\n");
                b.insert(i, c);
                ops.push("insert");
            }
            4 if len > 0 => {
                let i = ctx.tape.choose(len) as usize;
                let c = b[i];
                b.insert(i, c);
                ops.push("duplicate");
            }
            5 => {
                // swap two fields
                let s = String::from_utf8_lossy(&b).to_string();
                let mut f: Vec<String> = s.split(' ').map(|x| x.to_string()).collect();
                if f.len() >= 2 {
                    let i = ctx.tape.choose(f.len() as u32) as usize;
                    let j = ctx.tape.choose(f.len() as u32) as usize;
                    f.swap(i, j);
                    b = f.join(" ").into_bytes();
                    ops.push("swap-fields");
                }
            }
            6 => {
                // splice a field from another record
                let s = String::from_utf8_lossy(&b).to_string();
                let mut f: Vec<String> = s.split(' ').map(|x| x.to_string()).collect();
                let g: Vec<&str> = other.split(' ').collect();
                if !f.is_empty() && f.len() == g.len() {
                    let i = ctx.tape.choose(f.len() as u32) as usize;
                    f[i] = g[i].to_string();
                    b = f.join(" ").into_bytes();
                    ops.push("splice-field");
                }
            }
            7 => {
                // replace a number by a longer one
                let s = String::from_utf8_lossy(&b).to_string();
                let mut f: Vec<String> = s.split(' ').map(|x| x.to_string()).collect();
                if f.len() >= 5 {
                    let i = f.len() - 1 - ctx.tape.choose(2) as usize;
                    f[i] = ctx.tape.pick(&["65535", "65536", "99999", "9999", "10000", "00000", "4294967296", "0x10", "-1", "+1", ""]).to_string();
                    b = f.join(" ").into_bytes();
                    ops.push("long-number");
                }
            }
            8 if len > 0 => {
                let i = ctx.tape.choose(len) as usize;
                b[i] = *ctx.tape.pick(&[0u8, 0xff, 0x80, 0xc3, b'9', b'0', b'K', b'k', b'P', b'p', b'/', b' ']);
                ops.push("replace-byte");
            }
            9 => {
                // rewrite the side / rights / ep fields with plausible alternatives
                let s = String::from_utf8_lossy(&b).to_string();
                let mut f: Vec<String> = s.split(' ').map(|x| x.to_string()).collect();
                if f.len() == 6 {
                    match ctx.tape.choose(3) {
                        0 => f[1] = if f[1] == "w" { "b".into() } else { "w".into() },
                        1 => f[2] = ctx.tape.pick(&["KQkq", "K", "Q", "k", "q", "Kk", "Qq", "KQ", "kq", "-", "qkQK", "KK"]).to_string(),
                        _ => {
                            // a marker on any file and a plausible rank - or, half of the time,
                            // directly behind or ahead of a pawn that stands on its fourth or
                            // fifth rank, whichever colour it has and whoever is to move
                            let mut near_pawn: Vec<String> = Vec::new();
                            for (ri, row) in f[0].split('/').enumerate() {
                                let mut file = 0u8;
                                for ch in row.bytes() {
                                    if ch.is_ascii_digit() {
                                        file += ch - b'0';
                                    } else {
                                        if (ch == b'p' || ch == b'P') && (ri == 3 || ri == 4) && file < 8 {
                                            let fc = (b'a' + file) as char;
                                            near_pawn.push(format!("{fc}{}", if ri == 3 { '6' } else { '3' }));
                                        }
                                        file += 1;
                                    }
                                }
                            }
                            if !near_pawn.is_empty() && ctx.tape.choose(2) == 1 {
                                f[3] = ctx.tape.pick(&near_pawn).clone();
                            } else {
                                let file = (b'a' + ctx.tape.choose(8) as u8) as char;
                                let rank = *ctx.tape.pick(&['3', '6', '6', '3', '4', '5']);
                                f[3] = format!("{file}{rank}");
                            }
                        }
                    }
                    b = f.join(" ").into_bytes();
                    ops.push("rewrite-field");
                }
            }
            _ => {
                // move a piece letter around inside the placement field
                if len > 0 {
                    let i = ctx.tape.choose(len) as usize;
                    let j = ctx.tape.choose(len) as usize;
                    b.swap(i, j);
                    ops.push("swap-bytes");
                }
            }
        }
    }
    (b, ops.join("+"))
}

/// the repository's key tables by kind of component, read through its public accessors
fn table_keys() -> &'static [(&'static str, std::collections::HashSet<u64>)] {
    use chess_bitboard::{Color, File, Piece, Pos};
    static KEYS: std::sync::OnceLock<Vec<(&'static str, std::collections::HashSet<u64>)>> = std::sync::OnceLock::new();
    KEYS.get_or_init(|| {
        let mut piece = std::collections::HashSet::new();
        for sq in 0..64u8 {
            for p in [Piece::Pawn, Piece::Knight, Piece::Bishop, Piece::Rook, Piece::Queen, Piece::King] {
                for c in [Color::White, Color::Black] {
                    if let Some(pos) = Pos::from_u8(sq) {
                        piece.insert(chess_lookup::zobrist(pos, p, c));
                    }
                }
            }
        }
        let right: std::collections::HashSet<u64> = (0..16).map(chess_lookup::castle_rights_zobrist).collect();
        let ep: std::collections::HashSet<u64> = (0..8u8).filter_map(File::from_u8).map(chess_lookup::en_passant_zobrist).collect();
        let side: std::collections::HashSet<u64> = [Color::White, Color::Black].into_iter().map(chess_lookup::turn_zobrist).collect();
        vec![("piece", piece), ("right", right), ("ep", ep), ("side", side)]
    })
}

/// try to recover from a damaged record; on acceptance the session may continue from it
fn corrupt(ctx: &mut Ctx, s: &mut Session, other_text: &str) -> Step {
    let text = s.model.fen();
    let (bytes, ops) = corrupt_text(ctx, &text, other_text);
    ctx.stats.bump("fault.corrupt");
    let r = op(Op::ParseDamaged, || chess_movegen::fen::parse_fen(&bytes));
    let shown = String::from_utf8_lossy(&bytes).to_string();
    match r {
        Err(e) => {
            ctx.stats.bump("c06.rejected");
            // the error is a value the caller will print
            let n = op(Op::Print, || format!("{e} {e:?}").len());
            ctx.observe_u64(n as u64);
            Ok(())
        }
        Ok(b) => {
            ctx.stats.bump("probe.corrupt-record-accepted");
            ctx.stats.sample(|| format!("accepted damaged record {shown:?} (ops {ops})"));
            accept(ctx, s, b, "parse", &ops, &shown)
        }
    }
}

/// the same kind of damage expressed as builder calls
fn corrupt_builder(ctx: &mut Ctx, s: &mut Session) -> Step {
    use chess_bitboard::Color;
    let mut bld = Board::builder();
    let mut ops = Vec::new();
    for sqi in 0..64u8 {
        let x = s.model.sq[sqi as usize];
        if x != m1::EMPTY {
            let _ = bld.place(sut::pos(sqi), sut::color(m1::color_of(x)), sut::piece(m1::kind_of(x)));
        }
    }
    bld.turn(sut::color(s.model.stm));
    bld.enpassant(s.model.ep.map(sut::file));
    bld.half_move_clock(s.model.hmc.min(60000) as u16);
    bld.full_move_clock(s.model.fmn.min(60000) as u16);
    // the builder object is re-used: a first board is built from it (and dropped) before the
    // damage is done, so whatever the builder remembers about that build is stale afterwards
    if ctx.tape.choose(2) == 1 {
        let first = op(Op::BuildDamaged, || bld.build());
        ctx.stats.bump("fault.restart.builder-reused-after-build");
        if let Err(e) = &first {
            let n = op(Op::Print, || format!("{e:?}").len());
            ctx.observe_u64(n as u64);
        }
        ops.push("build");
    }
    let n = ctx.tape.range(1, 3);
    for _ in 0..n {
        match ctx.tape.choose(6) {
            0 => {
                let sqi = ctx.tape.choose(64) as u8;
                bld.remove(sut::pos(sqi));
                ops.push("remove");
            }
            1 => {
                let sqi = ctx.tape.choose(64) as u8;
                let c = ctx.tape.choose(2) as u8;
                let k = *ctx.tape.pick(&[m1::P, m1::N, m1::B, m1::R, m1::Q, m1::K]);
                let _ = op(Op::BuildDamaged, || bld.place(sut::pos(sqi), sut::color(c), sut::piece(k)).is_ok());
                ops.push("place");
            }
            2 => {
                let sqi = ctx.tape.choose(64) as u8;
                let c = ctx.tape.choose(2) as u8;
                let k = *ctx.tape.pick(&[m1::P, m1::N, m1::B, m1::R, m1::Q, m1::K]);
                bld.remove(sut::pos(sqi));
                let _ = op(Op::BuildDamaged, || bld.place(sut::pos(sqi), sut::color(c), sut::piece(k)).is_ok());
                ops.push("replace");
            }
            3 => {
                let f = ctx.tape.choose(9);
                bld.enpassant(if f == 8 { None } else { Some(sut::file(f as u8)) });
                ops.push("ep");
            }
            4 => {
                bld.turn(if ctx.tape.choose(2) == 0 { Color::White } else { Color::Black });
                ops.push("turn");
            }
            _ => {
                bld.half_move_clock(*ctx.tape.pick(&[0u16, 99, 100, 9999, 65534, 65535, 65535]));
                bld.full_move_clock(*ctx.tape.pick(&[0u16, 1, 9999, 65534, 65535]));
                ops.push("clocks");
            }
        }
    }
    ctx.stats.bump("fault.corrupt.builder");
    let ops = ops.join("+");
    match op(Op::BuildDamaged, || bld.build()) {
        Err(_) => {
            ctx.stats.bump("c06.builder-rejected");
            Ok(())
        }
        Ok(b) => {
            ctx.stats.bump("c06.builder-accepted");
            let shown = op(Op::Print, || b.to_string());
            accept(ctx, s, b, "build", &ops, &shown)
        }
    }
}

fn accept(ctx: &mut Ctx, s: &mut Session, b: Board, how: &str, ops: &str, shown: &str) -> Step {
    let got = match op(Op::Print, || sut::read_board(&b)) {
        Ok(g) => g,
        Err(e) => return ctx.fail(Prop::C06, &format!("{how}.accepted-invalid.partition"), String::new(), format!("{shown:?}: {e}")),
    };
    if let Err(clause) = got.validity() {
        if ctx.claim == Prop::C07 {
            // C07 quantifies over every *accepted* position: play on from it without
            // oracles, so that a trap that needs the invalid position can manifest
            ctx.stats.bump("c07.continued-from-accepted-invalid");
            s.sut_driven = true;
            s.model = got;
            s.board = b;
            s.played = false;
            s.shadow = None;
            s.from_standard = None;
            s.prev_legal.clear();
            s.last_move = [None, None];
            return Ok(());
        }
        return ctx.fail(Prop::C06, &format!("{how}.accepted-invalid.{clause}"), String::new(), format!("accepted {shown:?} (damage: {ops}) which violates '{clause}'; read back as {}", got.fen()));
    }
    // whatever text or call sequence was accepted, the board must be the board of the position
    // it reads back as: indistinguishable from the one loaded from that position's canonical text
    if !got.has_backrank_pawn() && got.hmc <= 9999 && got.fmn <= 9999 {
        if let Ok(canon) = op(Op::Parse, || sut::to_board(&got)) {
            ctx.stats.bump("c06.accepted-compared-with-canonical-load");
            compare_replica(ctx, &b, &canon, "accepted-record", &format!("how={how}"), &got.fen())?;
        }
    }
    // the session continues from the accepted position in a drawn half of the cases
    if ctx.tape.choose(2) == 0 {
        s.sut_driven = got.has_backrank_pawn();
        s.model = got;
        s.board = b;
        s.played = false;
        s.shadow = None;
        s.from_standard = None;
        s.prev_legal.clear();
        s.last_move = [None, None];
        ctx.stats.bump("c06.continued-from-accepted");
    }
    Ok(())
}

// ---------------------------------------------------------------- policies

fn choose_move(ctx: &mut Ctx, s: &Session, cfg: &Cfg, l1: &[Mv]) -> Mv {
    let side = s.model.stm as usize;
    match cfg.policy[side] {
        Policy::Uniform => *ctx.tape.pick(l1),
        Policy::Engine => {
            let k = ctx.tape.log_uniform(1500) as u64;
            let tf = chess_engine::ThreeFold::new();
            let o = clock::search(&s.board, &tf, k, ctx.tape.choose(2) == 1);
            ctx.stats.bump("policy.engine-moves");
            ctx.stats.add("sim.clock-ticks", o.polls);
            match o.mv {
                // what the engine proposes is C11's business; here it is only a source of moves
                Some(m) if l1.contains(&m) => m,
                _ => *ctx.tape.pick(l1),
            }
        }
        Policy::Reversible => {
            if let Some(prev) = s.last_move[side] {
                let undo = Mv::new(prev.to, prev.from, 0);
                if l1.contains(&undo) && ctx.tape.choose(4) != 0 {
                    return undo;
                }
            }
            // prefer quiet piece moves (reversible ones)
            let quiet: Vec<Mv> = l1.iter().copied().filter(|&m| s.model.kind(m) == MoveKind::Quiet && m1::kind_of(s.model.sq[m.from as usize]) != m1::P).collect();
            if !quiet.is_empty() && ctx.tape.choose(4) != 0 {
                *ctx.tape.pick(&quiet)
            } else {
                *ctx.tape.pick(l1)
            }
        }
        Policy::Tactical => {
            let mut weights: Vec<u32> = Vec::with_capacity(l1.len());
            let them = s.model.stm ^ 1;
            for &m in l1 {
                let k = s.model.kind(m);
                let mut w = 1u32;
                w = w.wrapping_add(match k {
                    MoveKind::DoubleStep => {
                        // next to an enemy pawn?
                        let r = m1::rank_of(m.to);
                        let f = m1::file_of(m.to);
                        let near = [f.wrapping_sub(1), f + 1].iter().any(|&g| g < 8 && s.model.sq[m1::sq(g, r) as usize] == m1::pc(them, m1::P));
                        if near {
                            cfg.w[0].wrapping_mul(4)
                        } else {
                            cfg.w[0] / 4
                        }
                    }
                    MoveKind::EnPassant => cfg.w[1].wrapping_mul(4),
                    MoveKind::CastleK | MoveKind::CastleQ => cfg.w[2].wrapping_mul(4),
                    // a promotion that captures on a corner square takes a rook off its home
                    // square, rights and all (seeded change C05-R: that successor was only ever
                    // looked at one ply ahead, never played and written down)
                    MoveKind::PromoQ | MoveKind::PromoN | MoveKind::PromoB | MoveKind::PromoR if matches!(m.to, 0 | 7 | 56 | 63) && s.model.sq[m.to as usize] != m1::EMPTY => {
                        cfg.w[3].wrapping_add(cfg.w[5].wrapping_mul(4)).wrapping_add(8)
                    }
                    MoveKind::PromoQ => cfg.w[3],
                    MoveKind::PromoN | MoveKind::PromoB | MoveKind::PromoR => cfg.w[4],
                    MoveKind::Capture => {
                        if matches!(m.to, 0 | 7 | 56 | 63) {
                            cfg.w[5].wrapping_mul(2)
                        } else {
                            cfg.w[5] / 4
                        }
                    }
                    MoveKind::Quiet => 0,
                });
                if cfg.w[6] > 0 && gives_check(&s.model, m) {
                    w = w.wrapping_add(cfg.w[6]);
                }
                if cfg.w[7] > 0 && m1::kind_of(s.model.sq[m.from as usize]) == m1::P {
                    w = w.wrapping_add(cfg.w[7] / 4);
                }
                weights.push(w);
            }
            let total: u32 = weights.iter().fold(0u32, |a, b| a.wrapping_add(*b));
            let mut x = ctx.tape.choose(total.max(1));
            for (i, w) in weights.iter().enumerate() {
                if x < *w {
                    return l1[i];
                }
                x = x.wrapping_sub(*w);
            }
            l1[0]
        }
    }
}

/// F-SCHED on one thread: a second session on a sibling position - same placement, but the
/// other side to move, fewer castling rights or no en-passant marker - is interleaved with
/// this one (A, B, A).  Whatever the real code remembers between calls (a memo keyed by too
/// little of the position) shows up as an answer that belongs to the other session.
fn interleave_twin(ctx: &mut Ctx, s: &Session, l1: &[Mv]) -> Step {
    if ctx.tape.choose(6) != 5 {
        return Ok(());
    }
    let mut t = s.model.clone();
    let variant = if ctx.mode == Prop::C03 { *ctx.tape.pick(&[4u32, 4, 0, 1, 2]) } else { ctx.tape.choose(5) };
    match variant {
        4 => {
            // the same position on the other side of the 100-half-move line (boards that
            // compare equal, yet one is drawn and the other is not)
            t.hmc = if t.hmc >= 100 { ctx.tape.choose(100) } else { 100 + ctx.tape.choose(3) };
        }
        0 => {
            t.stm ^= 1;
            t.ep = None;
        }
        1 => {
            let held: Vec<usize> = (0..4).filter(|&i| t.cr[i]).collect();
            if held.is_empty() {
                return Ok(());
            }
            t.cr[*ctx.tape.pick(&held)] = false;
        }
        2 => {
            if t.ep.is_none() {
                return Ok(());
            }
            t.ep = None;
        }
        _ => {
            t.stm ^= 1;
            t.ep = None;
            t.cr = [false; 4];
        }
    }
    if t.validity().is_err() || !clocks_in_range(&t) {
        ctx.stats.bump("twin.not-a-valid-position");
        return Ok(());
    }
    // a rejection of the twin's record is C06's business (every canonical record of a valid
    // position is accepted), not this probe's
    let Ok(tb) = op(Op::Parse, || sut::to_board(&t)) else {
        ctx.stats.bump("twin.record-rejected");
        return Ok(());
    };
    // (a twin that was loaded wrongly is the loader's failure, C05's; the monitors below would
    // blame the operations they watch)
    if let Some(comp) = op(Op::Print, || sut::load_mismatch(&tb, &t)) {
        return fail_any(ctx, &[(Prop::C05, "fen.parsed-differs")], format!("component={comp}"), format!("parsing {:?}: the board differs in {comp}", t.fen()));
    }
    let twin = Session { model: t, board: tb, played: false, prev_legal: Vec::new(), last_move: [None, None], from_standard: None, sut_driven: false, shadow: None, last_kind: None, last_gave_check: false };
    ctx.stats.bump("fault.sched.interleaved-twin-session");
    let lt = check_legals(ctx, &twin)?;
    match ctx.mode {
        Prop::C03 => {
            mon_c03_status(ctx, &twin, &lt)?;
            mon_c03_status(ctx, s, l1)?;
        }
        Prop::C02 => {
            mon_c02(ctx, &twin, &lt, 1)?;
            mon_c02(ctx, s, l1, 1)?;
        }
        Prop::C07 => {
            mon_c01(ctx, &twin, &lt, 1)?;
            mon_c02(ctx, &twin, &lt, 1)?;
            mon_c03_status(ctx, &twin, &lt)?;
            mon_c01(ctx, s, l1, 1)?;
            mon_c02(ctx, s, l1, 1)?;
            mon_c03_status(ctx, s, l1)?;
        }
        _ => {
            mon_c01(ctx, &twin, &lt, 1)?;
            mon_c01(ctx, s, l1, 1)?;
        }
    }
    // and the generator once more on the first session
    let again = op(Op::Generate, || sut::legals_sorted(&s.board));
    if again != l1 && ctx.mode != Prop::C02 {
        let fen = s.model.fen();
        let m = diff_first(l1, &again).or(diff_first(&again, l1));
        let feat = m.map(|m| move_features(&s.model, m)).unwrap_or_default();
        return ctx.fail(Prop::C01, "legals.changed-after-sibling-session", feat, format!("the move list of {fen} changed after a session on a sibling position"));
    }
    Ok(())
}

/// C07 only: the remaining safe surface of an accepted position - every text form of the raw
/// board and of the repetition table, and the piece sets walked with the iterator adaptors
/// (`nth`, `skip`, `step_by`, `last`, `count`) including arguments past the end.  Nothing is
/// compared (the set algebra itself is not a simulation target); a trap is the finding.
fn surface_walk(ctx: &mut Ctx, s: &Session, tf: &chess_engine::ThreeFold) {
    use chess_bitboard::{Color, Piece};
    if ctx.tape.choose(4) != 3 {
        return;
    }
    ctx.stats.bump("c07.surface-walks");
    let raw = *s.board.raw();
    let n = op(Op::Print, || format!("{raw:?}{raw:#?}{raw:b}{raw:x}{raw:X}").len());
    ctx.observe_u64(n as u64);
    if ctx.tape.choose(8) == 0 {
        let n = op(Op::Print, || format!("{tf:?}").len());
        ctx.stats.bump("c07.surface.repetition-table-printed");
        // (iteration order of the table is not part of the observation)
        let _ = n;
    }
    let set = match ctx.tape.choose(9) {
        0 => s.board[Color::White],
        1 => s.board[Color::Black],
        2 => s.board[Piece::Pawn],
        3 => s.board[Piece::Knight],
        4 => s.board[Piece::Bishop],
        5 => s.board[Piece::Rook],
        6 => s.board[Piece::Queen],
        7 => s.board[Piece::King],
        _ => raw.all(),
    };
    let len = set.count() as usize;
    let arg = match ctx.tape.choose(8) {
        0 => 0usize,
        1 => len.saturating_sub(1),
        2 => len,
        3 => len + 1,
        4 => 63,
        5 => 64,
        6 => 65 + ctx.tape.choose(1000) as usize,
        _ => usize::MAX,
    };
    if arg >= len {
        ctx.stats.bump("fault.degenerate-argument.nth-past-the-end");
    }
    let which = ctx.tape.choose(5);
    let r = op(Op::Iterate, || match which {
        0 => set.iter().nth(arg).map(|p| p.to_u8() as u64).unwrap_or(99),
        1 => set.iter().skip(arg).count() as u64,
        2 => set.iter().step_by(arg.clamp(1, 1 << 20)).count() as u64,
        3 => {
            let mut it = set.iter();
            let a = it.nth(arg.min(70)).map(|p| p.to_u8() as u64).unwrap_or(99);
            a * 100 + it.count() as u64
        }
        _ => set.iter().last().map(|p| p.to_u8() as u64).unwrap_or(99) + set.iter().size_hint().0 as u64,
    });
    ctx.observe_u64(r);
}

fn probes(ctx: &mut Ctx, s: &Session, l1: &[Mv]) {
    let st = &mut ctx.stats;
    if let Some(k) = s.model.king_sq(s.model.stm) {
        let n = s.model.attackers(k, s.model.stm ^ 1).len();
        if n >= 2 {
            st.bump("probe.double-check");
        }
    }
    let mut has_ep = false;
    for &m in l1 {
        match s.model.kind(m) {
            MoveKind::EnPassant => {
                has_ep = true;
                st.bump("probe.ep-capture-legal");
            }
            MoveKind::CastleK | MoveKind::CastleQ => st.bump("probe.castle-legal"),
            MoveKind::PromoN => st.bump("probe.promotion-available"),
            _ => {}
        }
    }
    for &m in l1 {
        match s.model.kind(m) {
            MoveKind::CastleK | MoveKind::CastleQ => {
                if s.model.make(m).in_check() {
                    st.bump("probe.castle-gives-check");
                }
            }
            MoveKind::PromoQ => {
                if s.model.sq[m.to as usize] != m1::EMPTY {
                    st.bump("probe.promotion-with-capture");
                    if matches!(m.to, 0 | 7 | 56 | 63) {
                        st.bump("probe.promotion-captures-corner-rook-square");
                    }
                }
            }
            _ => {}
        }
    }
    if s.model.ep.is_some() {
        // classify every en-passant candidate (the cases the property text names)
        let in_check = s.model.in_check();
        let king = s.model.king_sq(s.model.stm);
        for m in s.model.pseudo_legal().into_iter().filter(|&m| s.model.is_ep_capture(m)) {
            let legal = l1.contains(&m);
            // is the capturer pinned (removing it alone exposes the king)?
            let mut without = s.model.clone();
            without.sq[m.from as usize] = m1::EMPTY;
            let capturer_pinned = king.map(|k| !in_check && without.attacked(k, s.model.stm ^ 1)).unwrap_or(false);
            let mut without_victim = s.model.clone();
            let victim = m1::sq(m1::file_of(m.to), m1::rank_of(m.from));
            without_victim.sq[victim as usize] = m1::EMPTY;
            let victim_shields = king.map(|k| !in_check && without_victim.attacked(k, s.model.stm ^ 1)).unwrap_or(false);
            let tag = match (legal, in_check, capturer_pinned, victim_shields) {
                (true, true, _, _) => "legal-while-in-check",
                (false, true, _, _) => "illegal-while-in-check",
                (true, false, true, _) => "legal-by-pinned-capturer-along-its-line",
                (false, false, true, _) => "illegal-pinned-capturer",
                (true, false, false, true) => "legal-although-victim-shields-king",
                (false, false, false, true) => "illegal-victim-shields-king",
                (false, false, false, false) => "illegal-rank-discovery",
                (true, false, false, false) => "legal-plain",
            };
            st.bump(&format!("probe.ep.{tag}"));
            if legal && s.model.make(m).in_check() {
                st.bump("probe.ep.gives-check");
            }
        }
        st.bump("probe.ep-marker-set");
        // ep pseudo-legal but illegal?
        let pi = s.model.pseudo_illegal();
        if pi.iter().any(|&m| s.model.is_ep_capture(m)) {
            st.bump("probe.ep-capture-illegal");
        }
        if !has_ep && !pi.iter().any(|&m| s.model.is_ep_capture(m)) {
            st.bump("probe.ep-marker-without-capturer");
        }
    }
    // castling refused because of an attacker
    let us = s.model.stm;
    let home = if us == m1::WHITE { 4u8 } else { 60 };
    let (ks, qs) = if us == m1::WHITE { (m1::WK, m1::WQ) } else { (m1::BK, m1::BQ) };
    if (s.model.cr[ks] || s.model.cr[qs]) && s.model.sq[home as usize] == m1::pc(us, m1::K) {
        st.bump("probe.castle-right-present");
        for (right, squares, empties) in [(ks, [home + 1, home + 2], vec![home + 1, home + 2]), (qs, [home - 1, home - 2], vec![home - 1, home - 2, home - 3])] {
            if s.model.cr[right] && empties.iter().all(|&e| s.model.sq[e as usize] == m1::EMPTY) {
                for sqi in squares.iter().chain([home].iter()) {
                    for a in s.model.attackers(*sqi, us ^ 1) {
                        let kind = m1::kind_of(s.model.sq[a as usize]);
                        st.bump(&format!("probe.castle-refused.attacker{}.file{}", kind, m1::file_of(*sqi)));
                    }
                }
            }
        }
    }
    if l1.len() >= 60 {
        st.bump("probe.sixty-plus-moves");
    }
    st.max("max.legal-moves", l1.len() as u64);
    // how many entries the move list needs for this position: one per (source, promotion
    // piece) group, plus one more for a pawn that can also capture en passant
    let mut groups: Vec<(u8, u8)> = l1.iter().map(|m| (m.from, m.promo)).collect();
    groups.sort();
    groups.dedup();
    let mut entries = groups.len() as u64;
    for &(from, _) in &groups {
        let has_ep = l1.iter().any(|&m| m.from == from && s.model.is_ep_capture(m));
        let has_other = l1.iter().any(|&m| m.from == from && !s.model.is_ep_capture(m));
        if has_ep && has_other {
            entries += 1;
        }
    }
    st.max("max.move-list-entries-needed", entries);
    if entries >= 30 {
        st.bump("probe.thirty-or-more-move-list-entries");
    }
}

// ---------------------------------------------------------------- main loop

/// see `one_ply`: the property's own monitors at a position whose generated move list
/// already disagrees with the references
fn own_monitors_at_disputed_position(ctx: &mut Ctx, st: &mut LoopState) -> Step {
    let mut l1 = st.s.model.legal_moves();
    l1.sort();
    match ctx.claim {
        Prop::C02 => {
            // the checked operations must follow the rules, whatever the generator lists
            let ls = op(Op::Generate, || sut::legals_sorted(&st.s.board));
            let fen = st.s.model.fen();
            for &m in ls.iter().filter(|m| !l1.contains(m)).take(8) {
                for which in 0..3u32 {
                    if apply_checked(&st.s.board, m, which).is_some() {
                        return ctx.fail(Prop::C02, "gate.accepted-illegal", format!("offer=generated-but-illegal;op={}", APPLY_NAMES[which as usize]), format!("{} accepted illegal {} in {fen}", APPLY_NAMES[which as usize], m.text()));
                    }
                }
            }
            for &m in l1.iter().filter(|m| !ls.contains(m)).take(8) {
                for which in 0..3u32 {
                    if apply_checked(&st.s.board, m, which).is_none() {
                        return ctx.fail(Prop::C02, "gate.refused-legal", format!("{};op={}", move_features(&st.s.model, m), APPLY_NAMES[which as usize]), format!("{} refused legal {} in {fen}", APPLY_NAMES[which as usize], m.text()));
                    }
                }
            }
            Ok(())
        }
        Prop::C03 => mon_c03_status(ctx, &st.s, &l1),
        Prop::C11 | Prop::C12 | Prop::C13 => clock::at_position(ctx, &st.s, &l1, &st.three_fold),
        _ => Ok(()),
    }
}

enum Flow {
    Continue,
    Break,
}

struct LoopState {
    s: Session,
    cfg: Cfg,
    /// the double step that re-creates a constructed en-passant situation by play
    forced_first: Option<Mv>,
    /// C04 per-run table: position key -> (zobrist, board, occurrences)
    seen: BTreeMap<PosKey, (u64, Board, u32)>,
    three_fold: chess_engine::ThreeFold,
    /// consumer of Board's `Hash`/`Eq` with a fixed (deterministic) hasher
    table: std::collections::HashMap<Board, u32, std::hash::BuildHasherDefault<std::collections::hash_map::DefaultHasher>>,
    recent: Vec<(Board, Pos1)>,
    other_text: String,
    history_text: Vec<String>,
    /// compact history of the session for the evidence samples
    trace: Vec<String>,
}

fn one_ply(ctx: &mut Ctx, st: &mut LoopState, ply: u32) -> Step<Flow> {
        ctx.tape.mark();
        if st.s.sut_driven {
            // rule-undefined placement: no oracle, only trap detection
            let ls = op(Op::Generate, || sut::legals_sorted(&st.s.board));
            ctx.stats.bump("positions.sut-driven");
            if ls.is_empty() {
                return Ok(Flow::Break);
            }
            // where an en-passant marker is set, a move onto the marked square is preferred: it
            // is the move that acts on whatever the (possibly meaningless) marker stands for
            let text = op(Op::Print, || st.s.board.to_string());
            let target: Option<u8> = text.split(' ').nth(3).and_then(|f| {
                let b = f.as_bytes();
                if b.len() == 2 && (b'a'..=b'h').contains(&b[0]) && (b'1'..=b'8').contains(&b[1]) {
                    Some((b[1] - b'1') * 8 + (b[0] - b'a'))
                } else {
                    None
                }
            });
            let onto: Vec<Mv> = ls.iter().copied().filter(|m| Some(m.to) == target).collect();
            let m = if !onto.is_empty() && ctx.tape.choose(2) == 1 { *ctx.tape.pick(&onto) } else { *ctx.tape.pick(&ls) };
            let which = ctx.tape.choose(3);
            match apply_checked(&st.s.board, m, which) {
                Some(nb) => st.s.board = nb,
                None => return Ok(Flow::Break),
            }
            let _ = op(Op::Print, || format!("{} {:?}", st.s.board, st.s.board));
            let _ = op(Op::Status, || st.s.board.state());
            if ctx.tape.choose(4) == 0 {
                let k = ctx.tape.log_uniform(2000) as u64;
                let _ = clock::search(&st.s.board, &st.three_fold, k, false);
            }
            if ctx.tape.choose(3) == 0 {
                iter::consume_unchecked(ctx, &st.s)?;
            }
            return Ok(Flow::Continue);
        }
        let l1 = match check_legals(ctx, &st.s) {
            Ok(l) => l,
            Err(Stop::Foreign(v)) => {
                // the generated move list is wrong (C01's business).  Before the session is cut
                // short, let the property under check look at this very position with the
                // reference move list: a generator defect usually breaks it here too
                own_monitors_at_disputed_position(ctx, st)?;
                return Err(Stop::Foreign(v));
            }
            Err(e) => return Err(e),
        };
        let key = st.s.model.key();
        {
            let mut h = crate::tape::FNV0;
            crate::tape::fnv(&mut h, &key.sq);
            crate::tape::fnv(&mut h, &[key.stm, key.cr[0] as u8, key.cr[1] as u8, key.cr[2] as u8, key.cr[3] as u8, key.ep.map(|x| x + 1).unwrap_or(0)]);
            ctx.stats.distinct.insert(h);
            if st.s.model.in_check() || st.s.model.ep.is_some() || l1.iter().any(|&m| !matches!(st.s.model.kind(m), MoveKind::Quiet | MoveKind::Capture | MoveKind::DoubleStep)) {
                ctx.stats.distinct_nontrivial.insert(h);
            }
        }
        probes(ctx, &st.s, &l1);

        // shadow replica after a restart must stay indistinguishable
        if let Some((sh, _, _)) = &st.s.shadow {
            let sh = *sh;
            let feat = format!("last={:?};gave_check={};after-restart", st.s.last_kind, st.s.last_gave_check);
            compare_replica(ctx, &sh, &st.s.board, "diverged-after-restart", &feat, &st.s.model.fen())?;
        }

        match ctx.mode {
            Prop::C01 => {
                mon_c01(ctx, &st.s, &l1, st.cfg.byz)?;
                interleave_twin(ctx, &st.s, &l1)?;
            }
            Prop::C02 => {
                mon_c02(ctx, &st.s, &l1, st.cfg.byz)?;
                interleave_twin(ctx, &st.s, &l1)?;
            }
            Prop::C03 => {
                mon_c03_status(ctx, &st.s, &l1)?;
                interleave_twin(ctx, &st.s, &l1)?;
            }
            Prop::C05 => mon_c05(ctx, &st.s)?,
            Prop::C07 => {
                text_forms(ctx);
                mon_c01(ctx, &st.s, &l1, 1)?;
                mon_c03_status(ctx, &st.s, &l1)?;
                interleave_twin(ctx, &st.s, &l1)?;
                surface_walk(ctx, &st.s, &st.three_fold);
                let _ = op(Op::Print, || format!("{:#?}", st.s.board));
                let _ = op(Op::Hash, || {
                    use std::hash::{Hash, Hasher};
                    let mut h = std::collections::hash_map::DefaultHasher::new();
                    st.s.board.hash(&mut h);
                    h.finish()
                });
            }
            _ => {}
        }

        // C04: hash as a function of the position
        if matches!(ctx.mode, Prop::C04 | Prop::C07) {
            let z = op(Op::Hash, || st.s.board.zobrist());
            ctx.observe_u64(z);
            let fen = st.s.model.fen();
            let want_before = st.seen.get(&key).map(|e| e.2).unwrap_or(0);
            if let Some((z0, b0, n)) = st.seen.get_mut(&key) {
                ctx.stats.bump("c04.recurrences");
                let b0c = *b0;
                let z0c = *z0;
                *n = n.wrapping_add(1);
                if !op(Op::Hash, || b0c == st.s.board) {
                    // two boards of one position that compare unequal: C05's and C03's business
                    // (C04 speaks about boards that compare equal); counted, not judged here
                    ctx.stats.bump("c04.same-position-boards-unequal");
                }
                if z0c != z {
                    return ctx.fail(Prop::C04, "hash.equal-boards-differ", format!("last={:?}", st.s.last_kind), format!("same position, different hash ({z0c} vs {z}): {fen}"));
                }
            } else {
                // boards with different keys must not compare equal
                for (_, (_, b0, _)) in st.seen.iter().take(8) {
                    if op(Op::Hash, || *b0 == st.s.board) {
                        return ctx.fail(Prop::C04, "eq.unequal-keys-equal", String::new(), format!("boards for different positions compare equal: {fen}"));
                    }
                }
                st.seen.insert(key.clone(), (z, st.s.board, 1));
            }
            // a std HashMap keyed by the board itself is the consumer of `Hash`/`Eq`: boards for
            // the same position must land on one entry (checked after the direct comparisons
            // above, so that a plain hash difference is reported as such)
            let n_before = op(Op::Hash, || st.table.get(&st.s.board).copied().unwrap_or(0));
            if n_before != want_before {
                return ctx.fail(Prop::C04, "table.count", format!("want={};got={}", want_before.min(9), n_before.min(9)), format!("a hash map keyed by Board finds {n_before} earlier occurrences, the reference counts {want_before}, for {fen}"));
            }
            op(Op::Hash, || *st.table.entry(st.s.board).or_insert(0) += 1);
            if want_before < 250 {
                op(Op::Hash, || st.three_fold.add(st.s.board));
            }
            // transposition fork every 4 plies: replay the last four moves in another order
            st.recent.push((st.s.board, st.s.model.clone()));
        }

        // hosted scenarios
        let mate_here = ctx.mode == Prop::C12 && !st.s.model.mating_moves().is_empty();
        if mate_here {
            ctx.stats.bump("c12.hosted-because-mate-exists");
        }
        if mate_here || (st.cfg.hosted_in > 0 && ctx.tape.choose(st.cfg.hosted_in) == 0) {
            match ctx.mode {
                Prop::C10 => iter::consume(ctx, &st.s, &l1)?,
                Prop::C11 | Prop::C12 | Prop::C13 => clock::at_position(ctx, &st.s, &l1, &st.three_fold)?,
                Prop::C07 => {
                    if ctx.tape.choose(2) == 0 {
                        iter::consume(ctx, &st.s, &l1)?
                    } else {
                        clock::at_position(ctx, &st.s, &l1, &st.three_fold)?
                    }
                }
                _ => {}
            }
        }

        // faults
        if st.cfg.corrupt_in > 0 && ctx.tape.choose(st.cfg.corrupt_in) == 0 {
            if st.trace.len() < 48 {
                st.trace.push("[corrupt-record]".into());
            }
            if ctx.tape.choose(4) == 0 {
                corrupt_builder(ctx, &mut st.s)?;
            } else {
                corrupt(ctx, &mut st.s, &st.other_text)?;
            }
            if st.s.sut_driven {
                return Ok(Flow::Continue);
            }
            if st.s.model.key() != key {
                return Ok(Flow::Continue); // the session was re-rooted on an accepted record; start the ply over
            }
        }
        if st.cfg.restart_in > 0 && ctx.tape.choose(st.cfg.restart_in) == 0 {
            if st.trace.len() < 48 {
                st.trace.push("[restart]".into());
            }
            restart(ctx, &mut st.s)?;
        }

        if l1.is_empty() {
            ctx.stats.bump("games.ended");
            return Ok(Flow::Break);
        }
        // play
        let m = match st.forced_first.take() {
            Some(f) if l1.contains(&f) => {
                ctx.stats.bump("probe.ep-situation-reached-by-play");
                f
            }
            _ => choose_move(ctx, &st.s, &st.cfg, &l1),
        };
        let kind = st.s.model.kind(m);
        let which = ctx.tape.choose(3);
        let next_model = st.s.model.make(m);
        if next_model.hmc > 60_000 || next_model.fmn > 60_000 {
            return Ok(Flow::Break); // stay below the 16-bit limit (C02 quantifier); the overflow itself is C07/S-EXTREME
        }
        let feat = format!("{};op={}", move_features(&st.s.model, m), APPLY_NAMES[which as usize]);
        let Some(nb) = apply_checked(&st.s.board, m, which) else {
            return fail_any(ctx, &[(Prop::C02, "gate.refused-legal"), (Prop::C01, "is_legal.mismatch")], feat, format!("{} refused legal {} in {}", APPLY_NAMES[which as usize], m.text(), st.s.model.fen()));
        };
        ctx.stats.bump("plies");
        ctx.stats.bump(&format!("kind.{kind:?}"));
        if st.trace.len() < 48 {
            st.trace.push(format!("{}:{}", m.text(), APPLY_NAMES[which as usize]));
        }
        // the shadow replica takes the same move
        if let Some((sh, j, tag)) = st.s.shadow.take() {
            match apply_checked(&sh, m, which) {
                Some(nsh) => {
                    if j > 1 {
                        st.s.shadow = Some((nsh, j - 1, tag));
                    } else {
                        let feat = format!("last={kind:?};after-restart");
                        compare_replica(ctx, &nsh, &nb, "diverged-after-restart", &feat, &next_model.fen())?;
                    }
                }
                None => {
                    return fail_any(ctx, &[(Prop::C03, "restart.legals")], "after-restart".into(), format!("replica refused {} in {}", m.text(), st.s.model.fen()));
                }
            }
        }
        st.s.prev_legal = l1;
        st.s.last_move[st.s.model.stm as usize] = Some(m);
        st.s.last_kind = Some(kind);
        st.s.last_gave_check = next_model.in_check();
        if let Some(h) = &mut st.s.from_standard {
            h.push(m);
        }
        st.history_text.push(st.s.model.fen());
        if st.history_text.len() > 2 {
            st.other_text = st.history_text[ctx.tape.choose(st.history_text.len() as u32) as usize].clone();
        }
        st.s.model = next_model;
        st.s.board = nb;
        st.s.played = true;
        // sync check: the successor as the public surface shows it
        match op(Op::Print, || sut::read_board(&st.s.board)) {
            Ok(got) => {
                if let Some((comp, d)) = diff_component(&got, &st.s.model) {
                    if ctx.claim == Prop::C03 && (comp == "halfmove" || comp == "fullmove") {
                        // C03's status clause is about the true history ("100 half-moves without a
                        // pawn move or capture"): keep following the model's own clock and let the
                        // status and restart monitors judge what the board reports
                        ctx.stats.bump("c03.continued-with-clock-desync");
                    } else {
                        if ctx.claim == Prop::C01 && ctx.mode == Prop::C01 {
                            // the position reached by the rules is the model's; what the generator
                            // lists on the board the code produced for it is C01's business,
                            // whatever C02 has to say about that board
                            ctx.stats.bump("c01.monitor-at-position-with-wrong-successor");
                            check_legals(ctx, &st.s)?;
                        }
                        if ctx.claim == Prop::C05 && ctx.mode == Prop::C05 {
                            // the board the code produced was reached by legal play through the
                            // public API: whatever C02 has to say about it, its own text must
                            // still read back as itself (seeded change C05-R: a right kept
                            // without its rook is written down and then refused by the parser)
                            ctx.stats.bump("c05.roundtrip-at-wrong-successor");
                            let b = st.s.board;
                            let own = op(Op::Print, || b.to_string());
                            let f = format!("reached=wrong-successor;component={comp}");
                            match op(Op::Parse, || own.parse::<Board>()) {
                                Ok(r) => {
                                    compare_replica(ctx, &b, &r, "own-text", &f, &own)?;
                                    let again = op(Op::Print, || r.to_string());
                                    if again != own {
                                        return fail_any(ctx, &[(Prop::C05, "fen.not-idempotent")], f, format!("{own:?} -> parse -> {again:?}"));
                                    }
                                }
                                Err(e) => return fail_any(ctx, &[(Prop::C05, "fen.reparse-rejected")], f, format!("own text {own:?} of the board reached by {} rejected: {e:?}", m.text())),
                            }
                        }
                        return fail_any(ctx, &[(Prop::C02, &format!("succ.{comp}"))], feat, format!("after {} : {d}; now {}", m.text(), st.s.model.fen()));
                    }
                }
            }
            Err(e) => return fail_any(ctx, &[(Prop::C02, "succ.partition")], feat, format!("after {}: {e}", m.text())),
        }

        // C04 transposition fork
        if matches!(ctx.mode, Prop::C04) && st.recent.len() >= 5 && ply % 2 == 1 {
            fork(ctx, &st.s, &st.recent)?;
        }
        if st.recent.len() > 8 {
            st.recent.remove(0);
        }
    Ok(Flow::Continue)
}

pub fn run(ctx: &mut Ctx) -> Step {
    let cfg = draw_cfg(ctx);
    ctx.stats.bump(&format!("gen.{}", gen::GEN_NAMES[cfg.gen as usize]));
    let mut start = gen::generate(&mut ctx.tape, cfg.gen);
    // a constructed en-passant situation is, half of the time, taken back by one ply: the
    // session starts before the double step and plays it, so that the marker, the pins and the
    // checkers of the situation come from the incremental update rather than from a loader
    let mut forced_first: Option<Mv> = None;
    if let Some(f) = start.ep {
        if ctx.tape.choose(2) == 1 {
            let mover = start.stm ^ 1;
            let (to_r, from_r, mid_r) = if mover == m1::WHITE { (3u8, 1u8, 2u8) } else { (4u8, 6u8, 5u8) };
            let (to, from, mid) = (m1::sq(f, to_r), m1::sq(f, from_r), m1::sq(f, mid_r));
            if start.sq[to as usize] == m1::pc(mover, m1::P) && start.sq[from as usize] == m1::EMPTY && start.sq[mid as usize] == m1::EMPTY {
                let mut pre = start.clone();
                pre.sq[to as usize] = m1::EMPTY;
                pre.sq[from as usize] = m1::pc(mover, m1::P);
                pre.stm = mover;
                pre.ep = None;
                if mover == m1::BLACK && pre.fmn > 0 {
                    pre.fmn -= 1;
                }
                let step = Mv::new(from, to, 0);
                if pre.validity().is_ok() && pre.legal_moves().contains(&step) {
                    start = pre;
                    forced_first = Some(step);
                }
            }
        }
    }
    let fen0 = start.fen();
    if cfg.gen == 10 {
        // reach probes for the mate hunt
        let mates = start.mating_moves();
        for &m in &mates {
            ctx.stats.bump(&format!("probe.mate-in-one-by.{:?}", start.kind(m)));
        }
        if !mates.is_empty() && start.legal_moves().len() == 1 {
            ctx.stats.bump("probe.mate-in-one-by.only-legal-move");
        }
        if !mates.is_empty() && start.in_check() {
            ctx.stats.bump("probe.mate-in-one-while-in-check");
        }
        if !mates.is_empty() && start.hmc == 99 {
            ctx.stats.bump("probe.mate-in-one-at-clock-99");
        }
        for &m in &mates {
            if start.sq[m.to as usize] != m1::EMPTY {
                let after = start.make(m);
                let others = after.sq.iter().filter(|&&x| x != m1::EMPTY && m1::kind_of(x) != m1::K).count();
                if others <= 2 {
                    ctx.stats.bump("probe.mate-in-one-by.capture-leaving-two-or-fewer-pieces");
                }
            }
        }
    }
    let board = match op(Op::Parse, || sut::to_board(&start)) {
        Ok(b) => b,
        Err(e) => {
            return fail_any(ctx, &[(Prop::C06, "parse.rejected-canonical"), (Prop::C05, "fen.reparse-rejected")], format!("stm={};ep={}", start.stm, start.ep.is_some()), format!("canonical FEN {fen0:?} of a valid position rejected: {e}"));
        }
    };
    match op(Op::Print, || sut::read_board(&board)) {
        Ok(got) => {
            if let Some((comp, d)) = diff_component(&got, &start) {
                return fail_any(ctx, &[(Prop::C05, "fen.parsed-differs")], format!("component={comp}"), format!("parsing {fen0:?} gave a different position: {d}"));
            }
        }
        Err(e) => return fail_any(ctx, &[(Prop::C05, "fen.parsed-differs")], "component=partition".into(), format!("parsing {fen0:?}: {e}")),
    }
    if cfg.gen == 0 {
        // the constructor and the parser must agree on the standard position
        let std_dbg = op(Op::Print, || format!("{:?}", Board::standard()));
        let parsed_dbg = op(Op::Print, || format!("{board:?}"));
        if std_dbg != parsed_dbg {
            return fail_any(ctx, &[(Prop::C05, "recover.paths-differ")], "path=constructor".into(), "Board::standard() differs from the parsed standard position".into());
        }
    }
    let mut s = Session {
        model: start,
        board,
        played: false,
        prev_legal: Vec::new(),
        last_move: [None, None],
        from_standard: if cfg.gen == 0 { Some(Vec::new()) } else { None },
        sut_driven: ctx.env.lean,
        shadow: None,
        last_kind: None,
        last_gave_check: false,
    };
    let mut st = LoopState { s, cfg, forced_first, seen: BTreeMap::new(), three_fold: chess_engine::ThreeFold::new(), table: Default::default(), recent: Vec::new(), other_text: fen0.clone(), history_text: Vec::new(), trace: Vec::new() };
    for ply in 0..st.cfg.ply_limit {
        match one_ply(ctx, &mut st, ply) {
            Ok(Flow::Continue) => {}
            Ok(Flow::Break) => break,
            Err(Stop::Foreign(v)) if ctx.claim == Prop::C07 && !st.s.sut_driven => {
                // C07 quantifies over every sequence of safe calls: a failed monitor of another
                // property is no reason to stop; play on without oracles so that a trap which
                // needs the wrong state can still manifest
                ctx.stats.bump("c07.continued-after-foreign-violation");
                ctx.stats.bump(&format!("foreign.{}.{}", v.prop.id(), v.class));
                st.s.sut_driven = true;
                st.s.shadow = None;
            }
            Err(e) => return Err(e),
        }
    }
    ctx.stats.bump("runs.completed");
    let trace = std::mem::take(&mut st.trace);
    ctx.stats.sample(|| format!("{} from {fen0} :: {}", gen::GEN_NAMES[st.cfg.gen as usize], trace.join(" ")));
    Ok(())
}

/// replay the last four plies in a different order from the position four
/// plies ago; if the model says both orders reach the same position, the real
/// boards must be equal and hash equal
fn fork(ctx: &mut Ctx, s: &Session, recent: &[(Board, Pos1)]) -> Step {
    // reconstruct the last four moves from consecutive model positions
    let n = recent.len();
    let base = &recent[n - 4];
    let chain: Vec<Pos1> = recent[n - 4..].iter().map(|x| x.1.clone()).chain(std::iter::once(s.model.clone())).collect();
    let mut mvs: Vec<Mv> = Vec::new();
    for w in chain.windows(2) {
        let found = w[0].legal_moves().into_iter().find(|&m| w[0].make(m).key() == w[1].key() && w[0].make(m).hmc == w[1].hmc);
        match found {
            Some(m) => mvs.push(m),
            None => return Ok(()), // a restart or re-root happened in between
        }
    }
    if mvs.len() != 4 {
        return Ok(());
    }
    let orders: [[usize; 4]; 3] = [[2, 1, 0, 3], [2, 3, 0, 1], [0, 3, 2, 1]];
    for ord in orders {
        let mut pm = base.1.clone();
        let mut pb = base.0;
        let mut ok = true;
        for &i in &ord {
            let m = mvs[i];
            if !pm.legal_moves().contains(&m) {
                ok = false;
                break;
            }
            pm = pm.make(m);
            match apply_checked(&pb, m, 0) {
                Some(nb) => pb = nb,
                None => return Ok(()), // refusals are C02's business
            }
        }
        if !ok || pm.key() != s.model.key() {
            continue;
        }
        ctx.stats.bump("c04.transpositions");
        let (z1, z2) = op(Op::Hash, || (pb.zobrist(), s.board.zobrist()));
        if z1 != z2 {
            return ctx.fail(Prop::C04, "hash.equal-boards-differ", "how=transposition".into(), format!("transposed move orders reach {} with hashes {z1} and {z2}", s.model.fen()));
        }
        if !op(Op::Hash, || pb == s.board) {
            // (equality of boards of one position is not C04's promise; counted only)
            ctx.stats.bump("c04.same-position-boards-unequal");
        }
    }
    Ok(())
}
