//! Executes one simulated run: dispatches the scenario, catches traps and
//! attributes them.

use crate::core::*;
use crate::tape::Tape;
use crate::{book, clock, game, plugin};
use serde_json::{json, Value};
use std::cell::RefCell;
use std::io::Write;
use std::panic::{self, AssertUnwindSafe};

thread_local! {
    static LAST_PANIC: RefCell<Option<PanicInfo>> = const { RefCell::new(None) };
}

#[derive(Clone, Debug)]
pub struct PanicInfo {
    pub file: String,
    pub line: u32,
    pub message: String,
    pub op: &'static str,
    pub origin: Origin,
    pub frame: String,
}

#[derive(Clone, Copy, PartialEq, Eq, Debug)]
pub enum Origin {
    Repo,
    Harness,
}

const REPO_CRATES: [&str; 8] = ["/chess-bitboard/src/", "/chess-lookup/src/", "/chess-movegen/src/", "/chess-engine/src/", "/chess-api/src/", "/chess-bot/src/", "/tracing-enabled/src/", "/colorz-tracing/src/"];

fn is_repo_path(file: &str) -> bool {
    REPO_CRATES.iter().any(|c| file.contains(c))
}

/// path relative to the repository root (so that signatures do not depend on where the tree lives)
pub fn repo_relative(file: &str) -> String {
    for c in REPO_CRATES {
        if let Some(i) = file.find(c) {
            return file[i + 1..].to_string();
        }
    }
    // registry and std sources: drop the machine-specific prefix
    if let Some(i) = file.find("/registry/src/") {
        let rest = &file[i + "/registry/src/".len()..];
        if let Some(j) = rest.find('/') {
            return rest[j + 1..].to_string();
        }
    }
    if file.starts_with("/rustc/") {
        if let Some(i) = file.find("/library/") {
            return file[i + 1..].to_string();
        }
    }
    file.to_string()
}

fn classify(file: &str, op: &str) -> (Origin, String) {
    // a location inside the repository's sources is repository code
    if is_repo_path(file) {
        return (Origin::Repo, String::new());
    }
    if file.contains("/chess-sim/src/") || file.starts_with("chess-sim/") || file.starts_with("src/") {
        return (Origin::Harness, String::new());
    }
    // std / registry location: look at the call stack for the innermost
    // repository or harness frame
    let bt = std::backtrace::Backtrace::force_capture().to_string();
    for l in bt.lines() {
        let l = l.trim();
        if let Some(rest) = l.strip_prefix("at ") {
            if is_repo_path(rest) {
                return (Origin::Repo, rest.to_string());
            }
            if rest.contains("/chess-sim/src/") {
                // a harness frame comes first: a harness bug, unless we are inside a repository operation
                // whose frames were inlined away
                if op == "harness" {
                    return (Origin::Harness, rest.to_string());
                } else {
                    return (Origin::Repo, format!("(inlined below) {rest}"));
                }
            }
        }
    }
    if op == "harness" {
        (Origin::Harness, String::new())
    } else {
        (Origin::Repo, String::new())
    }
}

static RUN_DEADLINE_MS: std::sync::atomic::AtomicU64 = std::sync::atomic::AtomicU64::new(0);

fn now_ms() -> u64 {
    static T0: std::sync::OnceLock<std::time::Instant> = std::sync::OnceLock::new();
    T0.get_or_init(std::time::Instant::now).elapsed().as_millis() as u64 + 1
}

/// A run that does not come back (an operation of the repository loops without ever
/// polling a clock) would hang the whole check.  The watchdog thread writes a record
/// naming the operation in progress and kills the process; the coordinator treats it
/// like any other aborting run.  Wall-clock time is used only for this safety net; it
/// never influences a run that terminates.
pub fn start_watchdog() {
    let limit_ms: u64 = std::env::var("VERIF_RUN_TIMEOUT_S").ok().and_then(|s| s.parse::<u64>().ok()).unwrap_or(150) * 1000;
    let _ = now_ms();
    std::thread::spawn(move || loop {
        std::thread::sleep(std::time::Duration::from_millis(500));
        let started = RUN_DEADLINE_MS.load(std::sync::atomic::Ordering::Relaxed);
        if started != 0 && now_ms().saturating_sub(started) > limit_ms {
            let run = CURRENT_RUN.load(std::sync::atomic::Ordering::Relaxed);
            let rec = json!({"run": run, "file": "", "line": 0, "message": format!("run did not finish within {} s", limit_ms / 1000), "op": current_op(),
                "origin": "repo", "frame": "", "overrun": false, "hang": true, "tape": crate::tape::mirror_snapshot()});
            let mut out = std::io::stdout().lock();
            let _ = writeln!(out, "P {rec}");
            let _ = out.flush();
            std::process::exit(86);
        }
    });
}

pub fn install_hook() {
    panic::set_hook(Box::new(|info| {
        let (file, line) = info.location().map(|l| (l.file().to_string(), l.line())).unwrap_or_default();
        let message = if let Some(s) = info.payload().downcast_ref::<&str>() {
            s.to_string()
        } else if let Some(s) = info.payload().downcast_ref::<String>() {
            s.clone()
        } else {
            "<non-string panic payload>".to_string()
        };
        let op = current_op();
        let overrun = clock::OVERRUN.with(|o| o.get());
        let (origin, frame) = if overrun { (Origin::Repo, String::new()) } else { classify(&file, op) };
        let pi = PanicInfo { file: file.clone(), line, message: message.clone(), op, origin, frame: frame.clone() };
        LAST_PANIC.with(|p| *p.borrow_mut() = Some(pi));
        // also write the record out at once: an aborting (non-unwinding) trap
        // kills the process right after this hook returns
        let run = CURRENT_RUN.load(std::sync::atomic::Ordering::Relaxed);
        let rec = json!({"run": run, "file": file, "line": line, "message": message, "op": op,
            "origin": if origin == Origin::Repo { "repo" } else { "harness" }, "frame": frame, "overrun": overrun, "tape": crate::tape::mirror_snapshot()});
        let mut out = std::io::stdout().lock();
        let _ = writeln!(out, "P {rec}");
        let _ = out.flush();
    }));
}

fn message_class(m: &str) -> &'static str {
    if m.contains("overflow") {
        "overflow"
    } else if m.contains("unsafe precondition") {
        "unsafe-precondition"
    } else if m.contains("index out of bounds") || m.contains("out of range") {
        "index"
    } else if m.contains("unwrap") || m.contains("None") {
        "unwrap"
    } else if m.contains("assertion") {
        "assertion"
    } else if m.contains("not yet implemented") || m.contains("not implemented") {
        "todo"
    } else {
        "other"
    }
}

/// turn a trap record into a violation of the appropriate property
pub fn trap_violation(claim: Prop, file: &str, line: u32, message: &str, op: &str, aborted: bool, frame: &str) -> Violation {
    trap_violation_kind(claim, file, line, message, op, if aborted { "abort" } else { "panic" }, frame)
}

/// kind: "panic" (unwinding), "abort" (process died), "hang" (killed by the watchdog)
pub fn trap_violation_kind(claim: Prop, file: &str, line: u32, message: &str, op: &str, kind: &str, frame: &str) -> Violation {
    let aborted = kind == "abort";
    let hang = kind == "hang";
    // a trap inside the very operation a property makes promises about is a violation of
    // that property (the operation did not deliver); any other trap belongs to C07
    let (prop, class) = match (claim, op) {
        (Prop::C01, "generate") => (Prop::C01, "legals.trap"),
        (Prop::C02, "apply") => (Prop::C02, "succ.trap"),
        (Prop::C03, "status") | (Prop::C03, "generate") => (Prop::C03, "status.trap"),
        (Prop::C04, "hash") => (Prop::C04, "hash.trap"),
        (Prop::C05, "print") | (Prop::C05, "parse") | (Prop::C05, "build") => (Prop::C05, "fen.trap"),
        (Prop::C06, "parse") | (Prop::C06, "parse-damaged") => (Prop::C06, "parse.trap"),
        (Prop::C06, "build") | (Prop::C06, "build-damaged") => (Prop::C06, "build.trap"),
        (Prop::C10, "iterate") | (Prop::C10, "generate") => (Prop::C10, "iter.trap"),
        (Prop::C11, "search") => (Prop::C11, "search.trap"),
        (Prop::C15, "plugin") => (Prop::C15, "plugin.trap"),
        (Prop::C17, "book") | (Prop::C17, "apply") => (Prop::C17, "book.trap"),
        _ => (Prop::C07, if aborted { "trap.abort" } else { "trap.panic" }),
    };
    let at = repo_relative(file);
    let class = if hang {
        if prop == Prop::C07 {
            "trap.hang".to_string()
        } else {
            class.replace(".trap", ".hang")
        }
    } else {
        class.to_string()
    };
    Violation {
        prop,
        class,
        features: format!("op={op};at={at};msg={}", message_class(message)),
        detail: format!("{message} at {file}:{line} during {op} {frame}"),
    }
}

pub enum RunResult {
    Ok,
    Violation(Violation),
    Foreign(Violation),
    Dispute(String),
    Harness(String),
}

pub struct RunOutput {
    pub result: RunResult,
    pub tape: Vec<u32>,
    pub marks: Vec<u32>,
    pub obs: u64,
}

fn dispatch(ctx: &mut Ctx) -> Step {
    if ctx.env.lean {
        // the Miri leg: repository code only, no reference models in the loop
        ctx.mode = Prop::C07;
        return game::run(ctx);
    }
    if ctx.claim == Prop::C07 {
        // C07 borrows every workload
        ctx.mode = *ctx.tape.pick(&[
            Prop::C07, Prop::C07, Prop::C07, Prop::C01, Prop::C02, Prop::C03, Prop::C04, Prop::C05, Prop::C06, Prop::C06,
            Prop::C10, Prop::C10, Prop::C11, Prop::C12, Prop::C13, Prop::C15, Prop::C15, Prop::C17,
        ]);
        ctx.stats.bump(&format!("c07.workload.{}", ctx.mode.id()));
    }
    match ctx.mode {
        Prop::C15 => plugin::run(ctx),
        Prop::C17 => book::run(ctx),
        _ => game::run(ctx),
    }
}

pub fn run_one(claim: Prop, tier: Tier, tape: Tape, stats: &mut Stats, env: &Env) -> RunOutput {
    let t0 = now_ms();
    RUN_DEADLINE_MS.store(t0, std::sync::atomic::Ordering::Relaxed);
    let r = run_one_inner(claim, tier, tape, stats, env);
    RUN_DEADLINE_MS.store(0, std::sync::atomic::Ordering::Relaxed);
    // wall-clock statistic only (never an input of a run)
    stats.max("max.run-wall-ms", now_ms().saturating_sub(t0));
    r
}

fn run_one_inner(claim: Prop, tier: Tier, tape: Tape, stats: &mut Stats, env: &Env) -> RunOutput {
    let mut ctx = Ctx { tape, claim, mode: claim, tier, stats, obs: crate::tape::FNV0, env };
    // somebody listens to the log in a quarter of the runs (INFO; DEBUG and TRACE are rarer:
    // the engine logs every node)
    let level = *ctx.tape.pick(&[0u32, 0, 0, 0, 0, 0, 0, 0, 0, 0, 0, 0, 1, 1, 2, 3]);
    let _listener = crate::trace::listen(level);
    if level > 0 {
        ctx.stats.bump(["", "runs.log-listener.info", "runs.log-listener.debug", "runs.log-listener.trace"][level as usize]);
    }
    set_op(Op::Harness);
    clock::OVERRUN.with(|o| o.set(false));
    LAST_PANIC.with(|p| *p.borrow_mut() = None);
    let r = panic::catch_unwind(AssertUnwindSafe(|| dispatch(&mut ctx)));
    set_op(Op::Harness);
    let result = match r {
        Ok(Ok(())) => RunResult::Ok,
        Ok(Err(Stop::Violation(v))) => RunResult::Violation(v),
        Ok(Err(Stop::Foreign(v))) => RunResult::Foreign(v),
        Ok(Err(Stop::Dispute(d))) => RunResult::Dispute(d),
        Ok(Err(Stop::Harness(h))) => RunResult::Harness(h),
        Err(_) => {
            let pi = LAST_PANIC.with(|p| p.borrow_mut().take());
            let overrun = clock::OVERRUN.with(|o| o.replace(false));
            match pi {
                Some(_) if overrun => {
                    let v = Violation { prop: Prop::C11, class: "search.overrun".into(), features: String::new(), detail: "the search kept polling an expired clock beyond the poll budget".into() };
                    if claim == Prop::C11 {
                        RunResult::Violation(v)
                    } else {
                        RunResult::Foreign(v)
                    }
                }
                Some(pi) if pi.origin == Origin::Repo => {
                    let v = trap_violation(claim, &pi.file, pi.line, &pi.message, pi.op, false, &pi.frame);
                    if v.prop == claim {
                        RunResult::Violation(v)
                    } else {
                        RunResult::Foreign(v)
                    }
                }
                Some(pi) => RunResult::Harness(format!("panic in harness code: {} at {}:{} {}", pi.message, pi.file, pi.line, pi.frame)),
                None => RunResult::Harness("panic without a hook record".into()),
            }
        }
    };
    let tape = ctx.tape.consumed();
    let marks = ctx.tape.marks.clone();
    RunOutput { result, tape, marks, obs: ctx.obs }
}

pub fn violation_json(v: &Violation) -> Value {
    json!({"property": v.prop.id(), "class": v.class, "features": v.features, "signature": v.signature(), "detail": v.detail})
}

pub fn result_json(o: &RunOutput) -> Value {
    let (kind, v) = match &o.result {
        RunResult::Ok => ("ok", Value::Null),
        RunResult::Violation(v) => ("violation", violation_json(v)),
        RunResult::Foreign(v) => ("foreign", violation_json(v)),
        RunResult::Dispute(d) => ("dispute", json!(d)),
        RunResult::Harness(h) => ("harness", json!(h)),
    };
    json!({"kind": kind, "v": v, "tape": o.tape, "marks": o.marks, "obs": format!("{:016x}", o.obs)})
}
