//! A tracing subscriber for the simulated host: in a share of the runs the engine's log
//! statements are really consumed - every field of every event and span is formatted - so
//! that expressions which only run when somebody listens are executed too.

use std::cell::Cell;
use tracing::field::{Field, Visit};
use tracing_subscriber::layer::{Context, SubscriberExt};
use tracing_subscriber::Layer;

thread_local! {
    pub static BYTES: Cell<u64> = const { Cell::new(0) };
    /// level of the listener installed for the run in progress (0: nobody listens)
    pub static LEVEL: Cell<u32> = const { Cell::new(0) };
}

/// the engine logs every node at DEBUG and TRACE, and formatting a board per node makes a
/// search some hundred times slower: scenarios scale their poll budgets down by this factor
/// while somebody listens at those levels
pub fn budget_divisor() -> u64 {
    if LEVEL.with(|l| l.get()) >= 2 {
        64
    } else {
        1
    }
}

struct Fmt;
impl Visit for Fmt {
    fn record_debug(&mut self, field: &Field, value: &dyn std::fmt::Debug) {
        let n = format!("{}={:?}", field.name(), value).len() as u64;
        BYTES.with(|b| b.set(b.get().wrapping_add(n)));
    }
}

struct Sink;
impl<S: tracing::Subscriber> Layer<S> for Sink {
    fn on_event(&self, e: &tracing::Event<'_>, _c: Context<'_, S>) {
        e.record(&mut Fmt);
    }
    fn on_new_span(&self, a: &tracing::span::Attributes<'_>, _id: &tracing::span::Id, _c: Context<'_, S>) {
        a.record(&mut Fmt);
    }
}

/// install the listener for the current thread until the guard is dropped
pub fn listen(level: u32) -> Option<tracing::subscriber::DefaultGuard> {
    LEVEL.with(|l| l.set(level));
    let filter = match level {
        1 => tracing_subscriber::filter::LevelFilter::INFO,
        2 => tracing_subscriber::filter::LevelFilter::DEBUG,
        3 => tracing_subscriber::filter::LevelFilter::TRACE,
        _ => return None,
    };
    let sub = tracing_subscriber::registry().with(filter).with(Sink);
    Some(tracing::subscriber::set_default(sub))
}
