//! S-ITER — an iterator consumer actor driving `MoveGen` with a drawn
//! operation sequence, checked after every operation against a set model of
//! the remaining moves (C10).

use crate::core::*;
use crate::game::Session;
use crate::refmodel::{self as m1, Mv};
use crate::sut;
use chess_bitboard::BitBoard;
use chess_movegen::ChessMove;

/// `MoveGen` lives in a private module and cannot be named here; its inherent
/// methods are reached through monomorphic function pointers built next to the
/// `let` that creates the iterator.
struct Ops<I> {
    len: fn(&I) -> usize,
    is_empty: fn(&I) -> bool,
    set_mask: fn(&mut I, BitBoard),
    remove: fn(&mut I, BitBoard),
    remove_move: fn(&mut I, ChessMove) -> bool,
}

fn mk<I>(
    _witness: &I,
    len: fn(&I) -> usize,
    is_empty: fn(&I) -> bool,
    set_mask: fn(&mut I, BitBoard),
    remove: fn(&mut I, BitBoard),
    remove_move: fn(&mut I, ChessMove) -> bool,
) -> Ops<I> {
    Ops { len, is_empty, set_mask, remove, remove_move }
}

macro_rules! ops_for {
    ($it:expr) => {
        mk(&$it, |i| i.len(), |i| i.is_empty(), |i, m| i.set_mask(m), |i, m| i.remove(m), |i, m| i.remove_move(m))
    };
}

#[derive(Clone)]
struct Model {
    /// moves not yet yielded and not removed
    remaining: Vec<Mv>,
    yielded: Vec<Mv>,
    removed: Vec<Mv>,
    mask: u64,
}

impl Model {
    fn visible(&self) -> usize {
        self.remaining.iter().filter(|m| self.mask >> m.to & 1 == 1).count()
    }
}

fn draw_mask(ctx: &mut Ctx, s: &Session, prev: u64) -> (u64, &'static str) {
    let them = s.model.stm ^ 1;
    match ctx.tape.choose(9) {
        0 => (!0u64, "all"),
        1 => (0u64, "none"),
        2 => {
            let mut m = 0u64;
            for i in 0..64 {
                let x = s.model.sq[i];
                if x != m1::EMPTY && m1::color_of(x) == them {
                    m |= 1 << i;
                }
            }
            (m, "captures")
        }
        3 => (1u64 << ctx.tape.choose(64), "one-square"),
        4 => (0xffu64 << (8 * ctx.tape.choose(8)), "rank"),
        5 => (0x0101_0101_0101_0101u64 << ctx.tape.choose(8), "file"),
        6 => (!prev, "complement"),
        7 => {
            // the promotion ranks
            (0xff00_0000_0000_00ffu64, "back-ranks")
        }
        _ => {
            let hi = ctx.tape.choose(1 << 16) as u64;
            let lo = ctx.tape.choose(1 << 16) as u64;
            let a = hi << 16 | lo;
            (a.wrapping_mul(0x9E37_79B9_7F4A_7C15) ^ (a << 32), "random")
        }
    }
}

fn features(last_mut: &str, model: &Model) -> String {
    // is a four-way promotion group partly yielded?
    let partly = model.yielded.iter().any(|y| y.promo != 0 && model.remaining.iter().any(|r| r.from == y.from && r.to == y.to && r.promo != 0));
    format!("last_mutation={last_mut};promotion_partly_yielded={}", partly as u8)
}

fn drive<I: Iterator<Item = ChessMove> + Clone>(ctx: &mut Ctx, s: &Session, mut it: I, ops: &Ops<I>, mut model: Model, compare: bool, scripted: bool) -> Step {
    let fen = s.model.fen();
    let nops = if scripted { 0 } else { ctx.tape.range(1, 24) };
    let mut last_mut: &'static str = "none";
    let mut trace: Vec<String> = Vec::new();

    macro_rules! check_sizes {
        () => {
            if compare {
                let want = model.visible();
                let got = op(Op::Iterate, || (ops.len)(&it));
                if got != want {
                    let f = features(last_mut, &model);
                    return ctx.fail(Prop::C10, "iter.len", f, format!("len() = {got}, {want} moves remain; ops {trace:?}; {fen}"));
                }
                let e = op(Op::Iterate, || (ops.is_empty)(&it));
                if e != (want == 0) {
                    let f = features(last_mut, &model);
                    return ctx.fail(Prop::C10, "iter.is_empty", f, format!("is_empty() = {e}, {want} moves remain; ops {trace:?}; {fen}"));
                }
                let sh = op(Op::Iterate, || it.size_hint());
                if sh != (want, Some(want)) {
                    let f = features(last_mut, &model);
                    return ctx.fail(Prop::C10, "iter.size_hint", f, format!("size_hint() = {sh:?}, {want} moves remain; ops {trace:?}; {fen}"));
                }
            } else {
                let _ = op(Op::Iterate, || ((ops.len)(&it), (ops.is_empty)(&it), it.size_hint()));
            }
        };
    }

    macro_rules! do_next {
        () => {{
            let got = op(Op::Iterate, || it.next());
            ctx.stats.bump("c10.ops.next");
            match got {
                Some(cm) => {
                    let m = sut::unmv(cm);
                    trace.push(format!("next={}", m.text()));
                    if compare {
                        if let Some(i) = model.remaining.iter().position(|&x| x == m) {
                            if model.mask >> m.to & 1 == 0 {
                                let f = features(last_mut, &model);
                                return ctx.fail(Prop::C10, "iter.yielded-outside-mask", f, format!("{} yielded outside the mask; ops {trace:?}; {fen}", m.text()));
                            }
                            model.remaining.remove(i);
                            model.yielded.push(m);
                        } else if model.yielded.contains(&m) {
                            let f = features(last_mut, &model);
                            return ctx.fail(Prop::C10, "iter.yielded-twice", f, format!("{} yielded twice; ops {trace:?}; {fen}", m.text()));
                        } else if model.removed.contains(&m) {
                            let f = features(last_mut, &model);
                            return ctx.fail(Prop::C10, "iter.yielded-removed", f, format!("{} yielded after it was removed; ops {trace:?}; {fen}", m.text()));
                        } else {
                            let f = features(last_mut, &model);
                            return ctx.fail(Prop::C10, "iter.yielded-illegal", f, format!("{} yielded but is not a legal move; ops {trace:?}; {fen}", m.text()));
                        }
                    }
                    true
                }
                None => {
                    trace.push("next=None".into());
                    if compare && model.visible() != 0 {
                        let f = features(last_mut, &model);
                        let missing: Vec<String> = model.remaining.iter().filter(|m| model.mask >> m.to & 1 == 1).map(|m| m.text()).collect();
                        return ctx.fail(Prop::C10, "iter.dropped", f, format!("next() = None although {} moves remain ({}); ops {trace:?}; {fen}", missing.len(), missing.join(" ")));
                    }
                    false
                }
            }
        }};
    }

    check_sizes!();
    if scripted {
        // the engine's staged pattern: remove_move(prev best) -> captures -> all
        if !model.remaining.is_empty() {
            let mv = *ctx.tape.pick(&model.remaining);
            op(Op::Iterate, || (ops.remove_move)(&mut it, sut::mv(mv)));
            model.remaining.retain(|&x| x != mv);
            model.removed.push(mv);
            last_mut = "remove_move";
            trace.push(format!("remove_move({})", mv.text()));
            check_sizes!();
        }
        let mut cap = 0u64;
        for i in 0..64 {
            let x = s.model.sq[i];
            if x != m1::EMPTY && m1::color_of(x) != s.model.stm {
                cap |= 1 << i;
            }
        }
        op(Op::Iterate, || (ops.set_mask)(&mut it, sut::bb(cap)));
        model.mask = cap;
        last_mut = "set_mask";
        trace.push("set_mask(captures)".into());
        check_sizes!();
        while do_next!() {
            check_sizes!();
        }
        op(Op::Iterate, || (ops.set_mask)(&mut it, sut::bb(!0)));
        model.mask = !0;
        trace.push("set_mask(all)".into());
        check_sizes!();
        while do_next!() {
            check_sizes!();
        }
        ctx.stats.bump("c10.scripted-engine-pattern");
    }
    for _ in 0..nops {
        let which = ctx.tape.choose(12);
        match which {
            0..=4 => {
                do_next!();
            }
            5 => {
                let (m, name) = draw_mask(ctx, s, model.mask);
                op(Op::Iterate, || (ops.set_mask)(&mut it, sut::bb(m)));
                model.mask = m;
                last_mut = "set_mask";
                trace.push(format!("set_mask({name}:{m:x})"));
                ctx.stats.bump("c10.ops.set_mask");
            }
            6 => {
                let (m, name) = draw_mask(ctx, s, model.mask);
                // removing everything is legal but uninformative; make it rarer
                let m = if m == !0 && ctx.tape.choose(4) != 0 { 1u64 << ctx.tape.choose(64) } else { m };
                op(Op::Iterate, || (ops.remove)(&mut it, sut::bb(m)));
                let (gone, keep): (Vec<Mv>, Vec<Mv>) = model.remaining.iter().partition(|x| m >> x.to & 1 == 1);
                model.remaining = keep;
                model.removed.extend(gone);
                last_mut = "remove";
                trace.push(format!("remove({name}:{m:x})"));
                ctx.stats.bump("c10.ops.remove");
            }
            7 | 8 => {
                // remove one specific move: mostly a remaining one, sometimes an already yielded or an arbitrary one
                let mv = match ctx.tape.choose(6) {
                    0 if !model.yielded.is_empty() => *ctx.tape.pick(&model.yielded),
                    1 => Mv::new(ctx.tape.choose(64) as u8, ctx.tape.choose(64) as u8, 0),
                    _ if !model.remaining.is_empty() => *ctx.tape.pick(&model.remaining),
                    _ => Mv::new(ctx.tape.choose(64) as u8, ctx.tape.choose(64) as u8, 0),
                };
                op(Op::Iterate, || (ops.remove_move)(&mut it, sut::mv(mv)));
                if let Some(i) = model.remaining.iter().position(|&x| x == mv) {
                    model.remaining.remove(i);
                    model.removed.push(mv);
                }
                last_mut = "remove_move";
                trace.push(format!("remove_move({})", mv.text()));
                ctx.stats.bump("c10.ops.remove_move");
            }
            9 => {
                // clone, then continue on either copy - or a re-used generator (a copy that was
                // run to its end under the full mask, its cursor past everything) takes over the
                // state of the live one through clone_from and is continued instead
                let mut c = op(Op::Iterate, || it.clone());
                match ctx.tape.choose(3) {
                    0 => {
                        it = c;
                        trace.push("clone".into());
                    }
                    1 => trace.push("clone (dropped)".into()),
                    _ => {
                        op(Op::Iterate, || {
                            (ops.set_mask)(&mut c, sut::bb(!0));
                            while c.next().is_some() {}
                            c.clone_from(&it);
                        });
                        it = c;
                        trace.push("clone_from(into an exhausted generator)".into());
                        ctx.stats.bump("c10.ops.clone_from");
                        last_mut = "clone_from";
                    }
                }
                ctx.stats.bump("c10.ops.clone");
            }
            10 => {
                // count() on a clone consumes it and must equal the remaining length
                let c = op(Op::Iterate, || it.clone());
                let n = op(Op::Iterate, || c.count());
                if compare && n != model.visible() {
                    let f = features(last_mut, &model);
                    return ctx.fail(Prop::C10, "iter.len", format!("{f};via=count"), format!("count() = {n}, {} moves remain; ops {trace:?}; {fen}", model.visible()));
                }
                trace.push("count".into());
            }
            _ => {
                // drain under the current mask
                while do_next!() {
                    check_sizes!();
                }
                trace.push("drain".into());
            }
        }
        check_sizes!();
    }
    // final drain under masks that together cover the board
    let (m, _) = draw_mask(ctx, s, model.mask);
    for part in [m, !m] {
        op(Op::Iterate, || (ops.set_mask)(&mut it, sut::bb(part)));
        model.mask = part;
        last_mut = "set_mask";
        trace.push(format!("set_mask(final:{part:x})"));
        check_sizes!();
        while do_next!() {
            check_sizes!();
        }
    }
    if compare && !model.remaining.is_empty() {
        let f = features(last_mut, &model);
        let missing: Vec<String> = model.remaining.iter().map(|m| m.text()).collect();
        return ctx.fail(Prop::C10, "iter.dropped", format!("{f};at=final-cover"), format!("after draining under covering masks {} moves were never yielded ({}); ops {trace:?}; {fen}", missing.len(), missing.join(" ")));
    }
    ctx.stats.bump("c10.sequences");
    ctx.stats.sample(|| format!("{fen} :: {}", trace.join(", ")));
    Ok(())
}

/// drive the iterator without any oracle (sessions that continue without a model)
pub fn consume_unchecked(ctx: &mut Ctx, s: &Session) -> Step {
    let b = &s.board;
    let model = Model { remaining: vec![], yielded: vec![], removed: vec![], mask: !0 };
    match ctx.tape.choose(3) {
        0 => {
            let it = op(Op::Generate, || b.legals());
            let ops = ops_for!(it);
            drive(ctx, s, it, &ops, model, false, false)
        }
        1 => {
            let (m, _) = draw_mask(ctx, s, !0);
            let it = op(Op::Generate, || b.legals_masked(sut::bb(m)));
            let ops = ops_for!(it);
            drive(ctx, s, it, &ops, model, false, false)
        }
        _ => {
            let c = if ctx.tape.choose(2) == 0 { chess_bitboard::Color::White } else { chess_bitboard::Color::Black };
            let it = op(Op::Generate, || b.king_legals(c));
            let ops = ops_for!(it);
            drive(ctx, s, it, &ops, model, false, false)
        }
    }
}

pub fn consume(ctx: &mut Ctx, s: &Session, l1: &[Mv]) -> Step {
    let which = ctx.tape.choose(8);
    let b = &s.board;
    if l1.iter().any(|m| m.promo != 0) {
        ctx.stats.bump("c10.positions-with-promotion");
    }
    if l1.iter().any(|&m| s.model.is_ep_capture(m)) {
        ctx.stats.bump("c10.positions-with-ep");
    }
    match which {
        0..=3 => {
            let it = op(Op::Generate, || b.legals());
            let ops = ops_for!(it);
            let model = Model { remaining: l1.to_vec(), yielded: vec![], removed: vec![], mask: !0 };
            drive(ctx, s, it, &ops, model, true, false)
        }
        4 => {
            let it = op(Op::Generate, || b.legals());
            let ops = ops_for!(it);
            let model = Model { remaining: l1.to_vec(), yielded: vec![], removed: vec![], mask: !0 };
            drive(ctx, s, it, &ops, model, true, true)
        }
        5 | 6 => {
            let (m, name) = draw_mask(ctx, s, !0);
            let it = op(Op::Generate, || b.legals_masked(sut::bb(m)));
            let ops = ops_for!(it);
            ctx.stats.bump("c10.legals_masked");
            let _ = name;
            // The statement fixes what a masked generator yields under its own mask; it does not
            // say whether moves outside that mask exist in the iterator at all (today they do
            // not) or are merely hidden until the mask is widened.  Ask the iterator which of the
            // two it is - a clone with the full mask holds either |legal & m| or |legal| moves -
            // and hold it to that reading for the rest of the sequence.  Anything else is wrong
            // under both.
            let restricted: Vec<Mv> = l1.iter().copied().filter(|x| m >> x.to & 1 == 1).collect();
            let total = op(Op::Iterate, || {
                let mut probe = it.clone();
                (ops.set_mask)(&mut probe, sut::bb(!0));
                (ops.len)(&probe)
            });
            let remaining = if total == restricted.len() {
                restricted
            } else if total == l1.len() {
                ctx.stats.bump("c10.legals_masked.keeps-hidden-moves");
                l1.to_vec()
            } else {
                return ctx.fail(Prop::C10, "masked-gen.count", String::new(), format!("legals_masked({m:x}) holds {total} moves under the full mask; {} legal moves have their destination in the mask and {} exist in all; {}", restricted.len(), l1.len(), s.model.fen()));
            };
            let model = Model { remaining, yielded: vec![], removed: vec![], mask: m };
            drive(ctx, s, it, &ops, model, true, false)
        }
        _ => {
            // king_legals: content unspecified by any property; driven for trap detection only
            if ctx.claim == Prop::C07 {
                let c = if ctx.tape.choose(2) == 0 { chess_bitboard::Color::White } else { chess_bitboard::Color::Black };
                let it = op(Op::Generate, || b.king_legals(c));
                let ops = ops_for!(it);
                let model = Model { remaining: vec![], yielded: vec![], removed: vec![], mask: !0 };
                drive(ctx, s, it, &ops, model, false, false)
            } else {
                let it = op(Op::Generate, || b.legals());
                let ops = ops_for!(it);
                let model = Model { remaining: l1.to_vec(), yielded: vec![], removed: vec![], mask: !0 };
                drive(ctx, s, it, &ops, model, true, false)
            }
        }
    }
}
