//! S-CLOCK — the engine under a simulated clock (C11, C12, C13).
//!
//! `SimTimeout` is a counting clock: poll i (0-based) reports expiry iff
//! i >= k, and stays expired (monotone).  No wall clock is consulted.

use crate::core::*;
use crate::game::Session;
use crate::refmodel::{self as m1, Mv, Pos1};
use crate::sut;
use chess_engine::{Engine, Score, ThreeFold, Timeout};
use chess_movegen::Board;
use std::cell::Cell;

thread_local! {
    pub static OVERRUN: Cell<bool> = const { Cell::new(false) };
    /// F-SCHED: a limit whose poll calls back into the library (a caller's `Timeout` may do
    /// anything): the board to work on while the outer search is suspended in its poll
    static REENTRANT: Cell<Option<Board>> = const { Cell::new(None) };
    static IN_POLL: Cell<bool> = const { Cell::new(false) };
}

/// while alive, every 64th poll of a simulated limit generates moves, asks for a move's
/// legality and runs a small search of its own on another engine object
struct ReentrantPolls;
impl ReentrantPolls {
    fn new(b: &Board) -> ReentrantPolls {
        REENTRANT.with(|c| c.set(Some(*b)));
        ReentrantPolls
    }
}
impl Drop for ReentrantPolls {
    fn drop(&mut self) {
        REENTRANT.with(|c| c.set(None));
        IN_POLL.with(|c| c.set(false));
    }
}

fn reentrant_poll(i: u64) {
    if i % 64 != 5 || IN_POLL.with(|c| c.get()) {
        return;
    }
    let Some(b) = REENTRANT.with(|c| c.get()) else { return };
    IN_POLL.with(|c| c.set(true));
    let first = b.legals().next();
    if let Some(m) = first {
        let _ = b.is_legal(m);
        let _ = b.move_new(m);
    }
    let polls = Cell::new(0u64);
    let t = SimTimeout { polls: &polls, k: 3, limit: 3 + SLACK };
    let _ = Engine::default().search(&b, &ThreeFold::new(), t);
    IN_POLL.with(|c| c.set(false));
}

#[derive(Clone, Copy)]
pub struct SimTimeout<'a> {
    polls: &'a Cell<u64>,
    k: u64,
    limit: u64,
}

impl<'a> SimTimeout<'a> {
    pub fn new(polls: &'a Cell<u64>, k: u64, limit: u64) -> Self {
        SimTimeout { polls, k, limit }
    }
}

impl Timeout for SimTimeout<'_> {
    #[inline]
    fn is_complete(&self) -> bool {
        let i = self.polls.get();
        self.polls.set(i.wrapping_add(1));
        if i >= self.limit {
            // the search keeps polling long after expiry: non-termination.
            // Unwind out of it; the run wrapper turns this into `search.overrun`.
            OVERRUN.with(|o| o.set(true));
            panic!("verif: poll budget exceeded (search ignores the expired clock)");
        }
        reentrant_poll(i);
        i >= self.k
    }
}

/// how many polls a search may make after the clock has expired before it is
/// declared non-terminating (a correct engine needs about one per stack frame)
pub const SLACK: u64 = 200_000;
const SENTINEL: u16 = u16::MAX;

pub struct Outcome {
    pub mv: Option<Mv>,
    pub score: Score,
    /// depth index of the last completed pass, if any
    pub completed: Option<u16>,
    pub polls: u64,
}

thread_local! {
    /// the engine object kept between searches while a position is worked on (the plugin keeps
    /// one for a whole game); with KEEP off every search gets a fresh engine
    static SHARED: std::cell::RefCell<Option<Engine>> = const { std::cell::RefCell::new(None) };
    static KEEP: Cell<bool> = const { Cell::new(false) };
}

/// while alive, all searches of this thread go through one engine object
struct SharedEngine;
impl SharedEngine {
    fn new() -> SharedEngine {
        SHARED.with(|c| *c.borrow_mut() = None);
        KEEP.with(|c| c.set(true));
        SharedEngine
    }
}
impl Drop for SharedEngine {
    fn drop(&mut self) {
        KEEP.with(|c| c.set(false));
        SHARED.with(|c| {
            if let Ok(mut slot) = c.try_borrow_mut() {
                *slot = None;
            }
        });
    }
}

pub fn search(board: &Board, tf: &ThreeFold, k: u64, positional: bool) -> Outcome {
    let polls = Cell::new(0u64);
    let t = SimTimeout { polls: &polls, k, limit: k.saturating_add(SLACK) };
    let keep = KEEP.with(|c| c.get());
    let mut e = if keep { SHARED.with(|c| c.borrow_mut().take()).unwrap_or_default() } else { Engine::default() };
    e.positional = positional;
    e.max_depth = SENTINEL;
    let (mv, score) = op(Op::Search, || e.search(board, tf, t));
    let out = Outcome { mv: mv.map(sut::unmv), score, completed: if e.max_depth == SENTINEL { None } else { Some(e.max_depth) }, polls: polls.get() };
    // the caller prints what it got (chess-cli does, with `{:?}`)
    let _ = op(Op::Print, || format!("{score:?} {mv:?}").len());
    if keep {
        SHARED.with(|c| *c.borrow_mut() = Some(e));
    }
    out
}

pub fn score_text(s: Score) -> String {
    match s {
        Score::Min => "Min".into(),
        Score::Max => "Max".into(),
        Score::Raw(x) => format!("Raw({x})"),
        Score::WhiteMateIn(n) => format!("WhiteMateIn({n})"),
        Score::BlackMateIn(n) => format!("BlackMateIn({n})"),
    }
}

fn negate(s: Score) -> Score {
    match s {
        Score::Min => Score::Max,
        Score::Max => Score::Min,
        Score::Raw(x) => Score::Raw(x.wrapping_neg()),
        Score::WhiteMateIn(n) => Score::BlackMateIn(n),
        Score::BlackMateIn(n) => Score::WhiteMateIn(n),
    }
}

fn check_result(ctx: &mut Ctx, fen: &str, l1: &[Mv], k: u64, o: &Outcome, tf_used: bool) -> Step {
    let phase = if k == 0 {
        "poll0"
    } else if o.completed.is_none() {
        "inside-pass0"
    } else {
        "after-pass0"
    };
    let feat = format!("phase={phase};history={}", if tf_used { "nonempty" } else { "empty" });
    if let Some(m) = o.mv {
        if l1.is_empty() {
            return ctx.fail(Prop::C11, "search.move-on-terminal", feat, format!("k={k}: returned {} in a position without legal moves: {fen}", m.text()));
        }
        if !l1.contains(&m) {
            return ctx.fail(Prop::C11, "search.illegal-move", feat, format!("k={k}: returned illegal move {} in {fen}", m.text()));
        }
    } else if !l1.is_empty() && o.completed.is_some() {
        return ctx.fail(Prop::C11, "search.no-move-after-pass", feat, format!("k={k}: a pass completed (depth {:?}) but no move was returned in {fen}", o.completed));
    } else if !l1.is_empty() && o.polls <= k {
        // the clock never reported expiry during this call: the limit let every pass the
        // engine wanted to make finish, so "no move" cannot be blamed on the limit
        return ctx.fail(Prop::C11, "search.no-move-without-expiry", format!("history={}", if tf_used { "nonempty" } else { "empty" }), format!("k={k}: the search returned on its own after {} polls, before the limit expired, without a move although legal moves exist in {fen}", o.polls));
    }
    Ok(())
}

fn mate1(stm: u8) -> Score {
    if stm == m1::WHITE {
        Score::WhiteMateIn(1)
    } else {
        Score::BlackMateIn(1)
    }
}

fn check_mate1(ctx: &mut Ctx, model: &Pos1, fen: &str, mates: &[Mv], k: u64, o: &Outcome) -> Step {
    let want = mate1(model.stm);
    let feat = format!("stm={};mates={}", model.stm, mates.len().min(3));
    // "the time limit lets the first pass finish": the engine says so itself, or the call
    // returned while the clock had not yet reported expiry (nothing was interrupted)
    if !mates.is_empty() && (o.completed.is_some() || o.polls <= k) {
        match o.mv {
            Some(m) if mates.contains(&m) => {
                if o.score != want {
                    return ctx.fail(Prop::C12, "mate1.wrong-score", feat, format!("k={k}: mating move {} returned with score {} in {fen}", m.text(), score_text(o.score)));
                }
                ctx.stats.bump("c12.mate-found");
            }
            other => {
                return ctx.fail(Prop::C12, "mate1.missed", feat, format!("k={k}: a mate in one exists ({}) but the search returned {:?} with {} after completing depth {:?} in {fen}", mates.iter().map(|m| m.text()).collect::<Vec<_>>().join(" "), other.map(|m| m.text()), score_text(o.score), o.completed));
            }
        }
    }
    if o.score == want {
        match o.mv {
            Some(m) if mates.contains(&m) => {}
            other => {
                return ctx.fail(Prop::C12, "mate1.false-claim", feat, format!("k={k}: score {} reported with move {:?}, which does not checkmate, in {fen}", score_text(o.score), other.map(|m| m.text())));
            }
        }
    }
    Ok(())
}

/// C11: every expiry index k from 0 up to K(pos), then log-uniform samples beyond
fn enumerate_expiry(ctx: &mut Ctx, s: &Session, l1: &[Mv], tf: &ThreeFold, tf_used: bool) -> Step {
    let fen = s.model.fen();
    let positional = ctx.tape.choose(2) == 1;
    let cap: u64 = match ctx.tier {
        Tier::Quick => 1200,
        Tier::Thorough => 4000,
    } / crate::trace::budget_divisor();
    let mut first_some: Option<u64> = None;
    let mut k = 0u64;
    let mut searches = 0u64;
    let mut polls = 0u64;
    let terminal = l1.is_empty();
    let kmax = if terminal { 64 } else { cap };
    let mut reached_two = false;
    while k <= kmax {
        let o = search(&s.board, tf, k, positional);
        searches += 1;
        polls = polls.wrapping_add(o.polls);
        ctx.observe_u64(o.polls ^ (o.mv.map(|m| m.from as u64 * 64 + m.to as u64).unwrap_or(4096) << 32));
        check_result(ctx, &fen, l1, k, &o, tf_used)?;
        match (o.mv, first_some) {
            (Some(_), None) => first_some = Some(k),
            (None, Some(k0)) => {
                return ctx.fail(Prop::C11, "search.non-monotone", format!("history={}", if tf_used { "nonempty" } else { "empty" }), format!("a move was returned for k={k0} but none for the later expiry k={k} in {fen}"));
            }
            _ => {}
        }
        if k == 0 {
            ctx.stats.bump("probe.expiry-at-poll0");
        } else if o.completed.is_none() {
            ctx.stats.bump("probe.expiry-inside-pass0");
        }
        if o.polls <= k && !terminal {
            // the search ended by itself (mate score): larger k changes nothing
            ctx.stats.bump("c11.search-ended-by-itself");
            reached_two = true;
            break;
        }
        if !terminal && o.completed.map(|d| d >= 1).unwrap_or(false) {
            reached_two = true;
            break;
        }
        k += 1;
    }
    if reached_two {
        ctx.stats.bump("c11.positions-enumerated-to-two-passes");
    } else {
        ctx.stats.bump("c11.positions-capped");
    }
    // sampled larger expiries
    let extra = if terminal { 2 } else { 3 };
    for _ in 0..extra {
        let hi: u32 = (if terminal { 70_000 } else { 200_000 }) / crate::trace::budget_divisor() as u32;
        // on a terminal root every pass costs one poll: go beyond the 16-bit depth range now and then
        let kk = if terminal && ctx.tape.choose(4) == 3 && crate::trace::budget_divisor() == 1 { 66_000 } else { ctx.tape.log_uniform(hi) as u64 };
        if terminal && kk > 60_000 {
            ctx.stats.bump("probe.terminal-root-beyond-u16-passes");
        }
        let o = search(&s.board, tf, kk, positional);
        searches += 1;
        polls = polls.wrapping_add(o.polls);
        check_result(ctx, &fen, l1, kk, &o, tf_used)?;
        if let (None, Some(k0)) = (o.mv, first_some) {
            if kk > k0 {
                return ctx.fail(Prop::C11, "search.non-monotone", format!("history={}", if tf_used { "nonempty" } else { "empty" }), format!("a move was returned for k={k0} but none for the later expiry k={kk} in {fen}"));
            }
        }
    }
    // the shipped wall-clock limit at its deterministic corner: a zero (and a one-nanosecond)
    // duration has expired by the first poll whatever the machine does, so the outcome must be
    // that of k = 0.  Larger durations depend on real time and are not simulated.
    for nanos in [0u64, 1] {
        let o = op(Op::Search, || {
            let t = chess_engine::DurationTimeout::new(std::time::Duration::from_nanos(nanos));
            let mut e = Engine::default();
            e.positional = positional;
            e.max_depth = SENTINEL;
            let (mv, score) = e.search(&s.board, tf, t);
            Outcome { mv: mv.map(sut::unmv), score, completed: if e.max_depth == SENTINEL { None } else { Some(e.max_depth) }, polls: 1 }
        });
        searches += 1;
        ctx.stats.bump("c11.searches-under-the-real-zero-duration-limit");
        check_result(ctx, &fen, l1, 0, &o, tf_used)?;
    }
    // F-CLOCK, the other corner of the shipped limit: a duration so long that the deadline
    // cannot be represented ("no limit").  Building the limit and asking it once must be
    // safe; on a terminal root (where every pass costs one poll and the engine stops by
    // itself) the search is run under it as well and must report no move.
    if ctx.tape.choose(4) == 3 {
        let d = *ctx.tape.pick(&[std::time::Duration::MAX, std::time::Duration::from_secs(u64::MAX), std::time::Duration::from_secs(i64::MAX as u64), std::time::Duration::from_secs(1 << 40)]);
        ctx.stats.bump("fault.clock.unrepresentable-deadline");
        let o = op(Op::Search, || {
            let t = chess_engine::DurationTimeout::new(d);
            let expired = t.is_complete();
            if !terminal {
                return Outcome { mv: None, score: Score::Min, completed: None, polls: expired as u64 };
            }
            let mut e = Engine::default();
            e.positional = positional;
            let (mv, score) = e.search(&s.board, tf, t);
            Outcome { mv: mv.map(sut::unmv), score, completed: None, polls: expired as u64 }
        });
        if o.polls != 0 {
            return ctx.fail(Prop::C11, "search.limit-expired-at-once", "limit=unrepresentable-deadline".into(), format!("a limit of {d:?} reported expiry at its first poll"));
        }
        if terminal {
            searches += 1;
            if let Some(m) = o.mv {
                return ctx.fail(Prop::C11, "search.move-on-terminal", "limit=unrepresentable-deadline".into(), format!("returned {} in a position without legal moves: {fen}", m.text()));
            }
        }
    }
    ctx.stats.add("c11.searches", searches);
    ctx.stats.add("sim.clock-ticks", polls);
    ctx.stats.bump("c11.positions");
    if terminal {
        ctx.stats.bump("c11.terminal-positions");
    }
    ctx.stats.sample(|| format!("{fen}: every k in 0..={k}, then 3 sampled; first move at k={first_some:?}"));
    Ok(())
}

fn mate_in_one(ctx: &mut Ctx, s: &Session, _l1: &[Mv], tf: &ThreeFold) -> Step {
    let fen = s.model.fen();
    let mates = s.model.mating_moves();
    let positional = ctx.tape.choose(2) == 1;
    ctx.stats.bump("c12.positions");
    match mates.len() {
        0 => ctx.stats.bump("c12.positions.no-mate"),
        1 => ctx.stats.bump("c12.positions.one-mate"),
        _ => ctx.stats.bump("c12.positions.several-mates"),
    }
    let big: u64 = 150_000 / crate::trace::budget_divisor();
    let o = search(&s.board, tf, big, positional);
    ctx.stats.add("sim.clock-ticks", o.polls);
    ctx.observe_u64(o.polls);
    check_mate1(ctx, &s.model, &fen, &mates, big, &o)?;
    if o.completed.is_none() {
        ctx.stats.bump("c12.pass0-over-cap");
        return Ok(());
    }
    // F-CLOCK in the mate hunt: the shipped wall-clock limit with a deadline that cannot be
    // represented ("no limit").  The simulated search above ended by itself before its clock
    // expired, so under a limit that never expires the real one performs the same finite
    // search - and owes the same mate.  (No tape draw: which duration is decided by the
    // poll count, so that every other run stays what it was.)
    if !mates.is_empty() && o.polls <= big && o.score == mate1(s.model.stm) {
        let d = [std::time::Duration::MAX, std::time::Duration::from_secs(u64::MAX), std::time::Duration::from_secs(i64::MAX as u64), std::time::Duration::from_secs(1 << 40)][(o.polls % 4) as usize];
        ctx.stats.bump("fault.clock.unrepresentable-deadline");
        ctx.stats.bump("c12.searches-under-the-real-unlimited-limit");
        let o3 = op(Op::Search, || {
            let t = chess_engine::DurationTimeout::new(d);
            let mut e = Engine::default();
            e.positional = positional;
            e.max_depth = SENTINEL;
            let (mv, score) = e.search(&s.board, tf, t);
            Outcome { mv: mv.map(sut::unmv), score, completed: if e.max_depth == SENTINEL { None } else { Some(e.max_depth) }, polls: 0 }
        });
        check_mate1(ctx, &s.model, &fen, &mates, u64::MAX, &o3)?;
    }
    // around the cost of the first pass and a drawn small value
    let mut ks: Vec<u64> = vec![ctx.tape.log_uniform(4096) as u64];
    if !mates.is_empty() {
        ks.push(o.polls.saturating_sub(1));
        ks.push(o.polls.saturating_sub(2));
        ks.push(o.polls / 2);
    }
    for k in ks {
        let o2 = search(&s.board, tf, k, positional);
        ctx.stats.add("sim.clock-ticks", o2.polls);
        check_mate1(ctx, &s.model, &fen, &mates, k, &o2)?;
        if !mates.is_empty() && o2.completed.is_none() {
            ctx.stats.bump("c12.mate-position-pass0-interrupted");
        }
    }
    if !mates.is_empty() {
        ctx.stats.sample(|| format!("{fen}: mates {}", mates.iter().map(|m| m.text()).collect::<Vec<_>>().join(" ")));
    }
    Ok(())
}

/// depth -> score map, using the clock as a depth probe
fn depth_scores(board: &Board, stats: &mut Stats) -> Vec<Option<Score>> {
    let tf = ThreeFold::new();
    let mut out: Vec<Option<Score>> = vec![None; 4];
    let mut k: u64 = 48;
    while k <= 160_000 / crate::trace::budget_divisor() {
        let o = search(board, &tf, k, false);
        stats.add("sim.clock-ticks", o.polls);
        if let Some(d) = o.completed {
            if (d as usize) < out.len() && out[d as usize].is_none() {
                out[d as usize] = Some(o.score);
            }
            if d >= 3 {
                break;
            }
        }
        if o.polls <= k {
            break; // ended by itself
        }
        k = k + k / 2;
    }
    out
}

fn symmetry(ctx: &mut Ctx, s: &Session, l1: &[Mv]) -> Step {
    if l1.iter().any(|m| m.promo != 0) || l1.is_empty() {
        ctx.stats.bump("c13.skipped-root-promotion-or-terminal");
        return Ok(());
    }
    let fen = s.model.fen();
    let mirror = s.model.mirror();
    let mfen = mirror.fen();
    let mboard = match op(Op::Parse, || sut::to_board(&mirror)) {
        Ok(b) => b,
        Err(e) => return ctx.fail(Prop::C06, "parse.rejected-canonical", String::new(), format!("mirror FEN {mfen:?} rejected: {e}")),
    };
    // a mirror that was loaded wrongly is the loader's failure (C05), not an asymmetry of the engine
    if let Some(comp) = op(Op::Print, || sut::load_mismatch(&mboard, &mirror)) {
        return ctx.fail(Prop::C05, "fen.parsed-differs", format!("component={comp}"), format!("parsing {mfen:?}: the board differs in {comp}"));
    }
    let a = depth_scores(&s.board, ctx.stats);
    let b = depth_scores(&mboard, ctx.stats);
    ctx.stats.bump("c13.positions");
    let mut common = 0;
    for d in 0..a.len() {
        if let (Some(x), Some(y)) = (a[d], b[d]) {
            common += 1;
            ctx.stats.bump(&format!("c13.pairs.depth{d}"));
            if x != negate(y) {
                let class = if matches!(x, Score::Raw(_)) && matches!(y, Score::Raw(_)) { "symmetry.score" } else { "symmetry.mate-distance" };
                return ctx.fail(Prop::C13, class, format!("depth={d}"), format!("depth {d}: {} for {fen} but {} for its mirror {mfen}", score_text(x), score_text(y)));
            }
            if !matches!(x, Score::Raw(0)) {
                ctx.stats.bump("c13.pairs.nonzero");
            }
        }
    }
    if common == 0 {
        ctx.stats.bump("c13.positions-without-common-depth");
    }
    ctx.stats.sample(|| format!("{fen} | {mfen}: {:?}", a.iter().map(|x| x.map(score_text)).collect::<Vec<_>>()));
    Ok(())
}

pub fn at_position(ctx: &mut Ctx, s: &Session, l1: &[Mv], game_tf: &ThreeFold) -> Step {
    let mode = if ctx.mode == Prop::C07 { *ctx.tape.pick(&[Prop::C11, Prop::C12]) } else { ctx.mode };
    // the repetition table of the game so far is used in a drawn half of the cases
    let empty = ThreeFold::new();
    let use_hist = mode != Prop::C13 && ctx.tape.choose(2) == 1;
    let tf = if use_hist { game_tf } else { &empty };
    // F-HIST: a repetition table in which the root or one of its successors has already
    // occurred very often (games nobody stopped at the third occurrence); the counters
    // involved are 8 bits wide
    let mut heavy = ThreeFold::new();
    let heavy_used = mode == Prop::C11 && ctx.tape.choose(8) == 7;
    if heavy_used {
        ctx.stats.bump("fault.history.saturated-table");
        let n = *ctx.tape.pick(&[255u32, 254, 256, 300, 3, 2]);
        let target = if l1.is_empty() || ctx.tape.choose(4) == 0 {
            s.board
        } else {
            let m = *ctx.tape.pick(l1);
            match op(Op::Apply, || s.board.move_new(sut::mv(m))) {
                Some(b) => b,
                None => s.board,
            }
        };
        for _ in 0..n {
            op(Op::History, || heavy.add(target));
        }
    }
    let (tf, use_hist) = if heavy_used { (&heavy, true) } else { (tf, use_hist) };
    let _reentrant = if mode != Prop::C13 && ctx.tape.choose(8) == 7 {
        ctx.stats.bump("fault.sched.re-entrant-polls");
        Some(ReentrantPolls::new(&s.board))
    } else {
        None
    };
    // one engine object for every search at this position (as the plugin does for a whole
    // game), or a fresh one per search
    let _shared = if mode != Prop::C13 && ctx.tape.choose(2) == 1 {
        ctx.stats.bump("c11.positions-with-one-engine-object");
        Some(SharedEngine::new())
    } else {
        None
    };
    // F-SCHED on one thread: a search on a sibling position (same placement, other side to
    // move) runs first; nothing it leaves behind may change what is promised for this one
    if mode != Prop::C13 && ctx.tape.choose(8) == 7 {
        let mut t = s.model.clone();
        t.stm ^= 1;
        t.ep = None;
        if t.validity().is_ok() {
            let loaded = op(Op::Parse, || sut::to_board(&t)).ok().filter(|tb| op(Op::Print, || sut::load_mismatch(tb, &t)).is_none());
            if let Some(tb) = loaded {
                ctx.stats.bump("fault.sched.interleaved-sibling-search");
                let k = 8 + ctx.tape.log_uniform(3000) as u64;
                let o = search(&tb, &empty, k, ctx.tape.choose(2) == 1);
                ctx.stats.add("sim.clock-ticks", o.polls);
                if let Some(m) = o.mv {
                    let mut lt = t.legal_moves();
                    lt.sort();
                    // (a disputed move list is C01's business, not this probe's)
                    if op(Op::Generate, || sut::legals_sorted(&tb)) == lt && !lt.contains(&m) {
                        return ctx.fail(Prop::C11, "search.illegal-move", "root=sibling".into(), format!("search returned {} which is illegal in {}", m.text(), t.fen()));
                    }
                }
            }
        }
    }
    match mode {
        Prop::C11 => enumerate_expiry(ctx, s, l1, tf, use_hist),
        Prop::C12 => mate_in_one(ctx, s, l1, tf),
        Prop::C13 => symmetry(ctx, s, l1),
        _ => Ok(()),
    }
}
