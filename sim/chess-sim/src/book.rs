//! S-BOOK — a season of simulated CLI openings (C17).
//!
//! Re-enacts `chess-cli/src/main.rs:48-65` (count children, pick one,
//! `assert!(board.move_mut(..))`, descend) with the tape in place of
//! `thread_rng`.  The book table and its decoder are the real code.

use crate::core::*;
use crate::refmodel::{Mv, Pos1};
use crate::sut;
use chess_lookup::{BookMoves, INITIAL_BOOOK_MOVES};
use chess_movegen::{Board, ChessMove};
use std::collections::BTreeMap;

fn node_id(b: BookMoves) -> u64 {
    // `BookMoves` hides its index but prints it: "book<index>"
    let s = format!("{b:?}");
    s.trim_start_matches("book").parse::<u64>().unwrap_or(u64::MAX)
}

/// number of children, with a guard against a decoder that does not terminate
fn children(b: BookMoves) -> Result<Vec<chess_lookup::BookMove>, String> {
    op(Op::Book, || {
        let mut v = Vec::new();
        for mv in b.into_iter() {
            v.push(mv);
            if v.len() > 100_000 {
                return Err(format!("more than 100000 children decoded from node {}", node_id(b)));
            }
        }
        Ok(v)
    })
}

/// complete walk used only as the denominator of the coverage figure
pub fn total_nodes() -> u64 {
    fn walk(b: BookMoves, depth: u32, n: &mut u64) {
        if depth > 64 {
            return;
        }
        if let Ok(ch) = children(b) {
            for c in ch {
                *n += 1;
                walk(c.children, depth + 1, n);
            }
        }
    }
    let mut n = 0;
    walk(INITIAL_BOOOK_MOVES, 0, &mut n);
    n
}

static TOTAL: std::sync::OnceLock<u64> = std::sync::OnceLock::new();
static LEAVES: std::sync::OnceLock<BTreeMap<u64, u64>> = std::sync::OnceLock::new();

/// number of root-to-leaf lines below each sub-table (by table index), from one walk
fn leaf_counts() -> BTreeMap<u64, u64> {
    fn walk(b: BookMoves, depth: u32, memo: &mut BTreeMap<u64, u64>) -> u64 {
        let id = node_id(b);
        if let Some(&n) = memo.get(&id) {
            return n;
        }
        let mut n = 0;
        if depth <= 64 {
            if let Ok(ch) = children(b) {
                for c in ch {
                    n += walk(c.children, depth + 1, memo);
                }
            }
        }
        let n = n.max(1);
        memo.insert(id, n);
        n
    }
    let mut memo = BTreeMap::new();
    walk(INITIAL_BOOOK_MOVES, 0, &mut memo);
    memo
}

pub fn run(ctx: &mut Ctx) -> Step {
    let games = if ctx.claim == Prop::C07 {
        400
    } else {
        match ctx.tier {
            Tier::Quick => 50_000,
            Tier::Thorough => 80_000,
        }
    };
    // one complete walk, used only as the denominator of the coverage figure
    let total = *TOTAL.get_or_init(total_nodes);
    let leaves = LEAVES.get_or_init(leaf_counts);
    ctx.stats.max("max.book-total-lines", *leaves.get(&node_id(INITIAL_BOOOK_MOVES)).unwrap_or(&0));
    ctx.stats.max("max.book-total-nodes", total);
    // the CLI starts from the empty node when it is given a position: traversal from it
    // must terminate, stay inside the table and yield nothing
    match children(chess_lookup::EMPTY_BOOK_MOVES) {
        Ok(c) if c.is_empty() => ctx.stats.bump("c17.empty-node-walks"),
        Ok(c) => return ctx.fail(Prop::C17, "book.empty-node-has-moves", String::new(), format!("EMPTY_BOOK_MOVES yields {} moves", c.len())),
        Err(e) => return ctx.fail(Prop::C17, "book.nonterminating", "node=empty".into(), e),
    }
    // visits per trie edge, inside this run only (a run stays a pure function of its tape)
    let mut visits: BTreeMap<u64, u32> = BTreeMap::new();
    for _ in 0..games {
        ctx.tape.mark();
        let mut book = INITIAL_BOOOK_MOVES;
        let mut board = Board::standard();
        let mut model = Pos1::standard();
        let mut depth = 0u32;
        let mut path = crate::tape::FNV0;
        let mut line: Vec<String> = Vec::new();
        loop {
            let ch = match children(book) {
                Ok(c) => c,
                Err(e) => return ctx.fail(Prop::C17, "book.nonterminating", format!("depth={depth}"), e),
            };
            if ch.is_empty() {
                break;
            }
            if depth >= 64 {
                return ctx.fail(Prop::C17, "book.nonterminating", format!("depth={depth}"), format!("line longer than 64 plies: {line:?}"));
            }
            // least-visited child first, ties by the tape.  Children are identified by the
            // *path* that leads to them (sub-tables are shared between lines, and legality
            // depends on the path)
            let ids: Vec<u64> = ch
                .iter()
                .map(|c| {
                    let mut h = path;
                    crate::tape::fnv(&mut h, &[c.source.to_u8(), c.dest.to_u8()]);
                    h
                })
                .collect();
            // prefer the child with the most lines not yet played below it
            let left: Vec<i64> = (0..ch.len())
                .map(|i| *leaves.get(&node_id(ch[i].children)).unwrap_or(&1) as i64 - *visits.get(&ids[i]).unwrap_or(&0) as i64)
                .collect();
            let best = left.iter().copied().max().unwrap_or(0);
            let cands: Vec<usize> = (0..ch.len()).filter(|&i| left[i] == best).collect();
            let pick = cands[ctx.tape.choose(cands.len() as u32) as usize];
            // F-BYZ: a driver that asks the node for more replies than it has (`nth`, `skip`
            // past the end).  Whatever comes back is a path through the book as far as the
            // caller can tell, so it must be a legal move of this node's position - or nothing
            if ctx.tape.choose(8) == 7 {
                ctx.stats.bump("fault.byz.book-adaptor-past-the-end");
                let n = ch.len() + ctx.tape.choose(4) as usize;
                let legal = model.legal_moves();
                let got: Vec<chess_lookup::BookMove> = op(Op::Book, || {
                    let mut v: Vec<chess_lookup::BookMove> = Vec::new();
                    v.extend(book.into_iter().nth(n));
                    v.extend(book.into_iter().skip(n).take(4));
                    let mut it = book.into_iter();
                    if it.nth(ch.len()).is_none() {
                        v.extend(it.take(4));
                    }
                    v
                });
                for x in got {
                    let m = Mv::new(x.source.to_u8(), x.dest.to_u8(), 0);
                    if !legal.contains(&m) {
                        return ctx.fail(Prop::C17, "book.illegal", format!("depth={depth};via=adaptor-past-the-end"), format!("asked for reply number {n} or later of a node with {} replies, the book returned {} which is illegal by the reference rules; line {line:?}", ch.len(), m.text()));
                    }
                }
                let cnt = op(Op::Book, || book.into_iter().count());
                if cnt != ch.len() {
                    ctx.stats.bump("c17.count-differs-from-plain-iteration");
                }
            }
            // the CLI takes the child by position with nth(); do the same
            let mv = op(Op::Book, || book.into_iter().nth(pick)).unwrap();
            if (mv.source, mv.dest) != (ch[pick].source, ch[pick].dest) {
                ctx.stats.bump("c17.nth-differs-from-plain-iteration");
            }
            *visits.entry(ids[pick]).or_insert(0) += 1;
            ctx.stats.distinct.insert(ids[pick]);
            ctx.stats.distinct_nontrivial.insert(ids[pick]);
            path = ids[pick];
            let m = Mv::new(mv.source.to_u8(), mv.dest.to_u8(), 0);
            line.push(m.text());
            let legal = model.legal_moves();
            let feat = format!("depth={depth}");
            if !legal.contains(&m) {
                if legal.iter().any(|x| x.from == m.from && x.to == m.to) {
                    return ctx.fail(Prop::C17, "book.needs-promotion", feat, format!("book move {} needs a promotion choice; line {line:?}", m.text()));
                }
                return ctx.fail(Prop::C17, "book.illegal", feat, format!("book move {} is illegal by the reference rules; line {line:?}", m.text()));
            }
            let ok = op(Op::Apply, || board.move_mut(ChessMove { source: mv.source, dest: mv.dest, piece: None }));
            if !ok {
                return ctx.fail(Prop::C17, "book.refused", feat, format!("book move {} is legal by the reference rules but the checked move operation (what the CLI asserts on) refused it; line {line:?}", m.text()));
            }
            model = model.make(m);
            ctx.stats.bump("c17.book-moves");
            book = mv.children;
            depth += 1;
        }
        ctx.stats.bump("c17.games");
        ctx.stats.max("max.book-depth", depth as u64);
        // the position reached should be the reference position; a difference is C02's business
        // and no reason to stop walking the book
        match op(Op::Print, || sut::read_board(&board)) {
            Ok(got) if got.key() == model.key() => {}
            _ => ctx.stats.bump("c17.games-ending-off-the-reference-position"),
        }
        if ctx.stats.samples.len() < 3 {
            ctx.stats.samples.push(format!("book line {}", line.join(" ")));
        }
    }
    ctx.stats.bump("runs.completed");
    Ok(())
}
