//! S-BOOK — a season of simulated CLI openings (C17).
//!
//! Re-enacts `chess-cli/src/main.rs:48-65` (count children, pick one,
//! `assert!(board.move_mut(..))`, descend) with the tape in place of
//! `thread_rng`.  The book table and its decoder are the real code.

use crate::core::*;
use crate::refmodel::{Mv, Pos1};
use crate::sut;
use chess_lookup::{BookMoves, INITIAL_BOOOK_MOVES};
use chess_movegen::{Board, ChessMove};
use std::collections::BTreeMap;

fn node_id(b: BookMoves) -> u64 {
    // `BookMoves` hides its index but prints it: "book<index>"
    let s = format!("{b:?}");
    s.trim_start_matches("book").parse::<u64>().unwrap_or(u64::MAX)
}

/// number of children, with a guard against a decoder that does not terminate
fn children(b: BookMoves) -> Result<Vec<chess_lookup::BookMove>, String> {
    let mut v = Vec::new();
    for mv in op(Op::Book, || b.into_iter()) {
        v.push(mv);
        if v.len() > 100_000 {
            return Err(format!("more than 100000 children decoded from node {}", node_id(b)));
        }
    }
    Ok(v)
}

/// complete walk used only as the denominator of the coverage figure
pub fn total_nodes() -> u64 {
    fn walk(b: BookMoves, depth: u32, n: &mut u64) {
        if depth > 64 {
            return;
        }
        if let Ok(ch) = children(b) {
            for c in ch {
                *n += 1;
                walk(c.children, depth + 1, n);
            }
        }
    }
    let mut n = 0;
    walk(INITIAL_BOOOK_MOVES, 0, &mut n);
    n
}

pub fn run(ctx: &mut Ctx) -> Step {
    let games = match ctx.tier {
        Tier::Quick => 4000,
        Tier::Thorough => 12000,
    };
    // visits per trie edge, inside this run only (a run stays a pure function of its tape)
    let mut visits: BTreeMap<u64, u32> = BTreeMap::new();
    for _ in 0..games {
        ctx.tape.mark();
        let mut book = INITIAL_BOOOK_MOVES;
        let mut board = Board::standard();
        let mut model = Pos1::standard();
        let mut depth = 0u32;
        let mut line: Vec<String> = Vec::new();
        loop {
            let ch = match children(book) {
                Ok(c) => c,
                Err(e) => return ctx.fail(Prop::C17, "book.nonterminating", format!("depth={depth}"), e),
            };
            if ch.is_empty() {
                break;
            }
            if depth >= 64 {
                return ctx.fail(Prop::C17, "book.nonterminating", format!("depth={depth}"), format!("line longer than 64 plies: {line:?}"));
            }
            // least-visited child first, ties by the tape
            let ids: Vec<u64> = ch.iter().map(|c| node_id(c.children)).collect();
            let minv = ids.iter().map(|i| *visits.get(i).unwrap_or(&0)).min().unwrap_or(0);
            let cands: Vec<usize> = (0..ch.len()).filter(|&i| *visits.get(&ids[i]).unwrap_or(&0) == minv).collect();
            let pick = cands[ctx.tape.choose(cands.len() as u32) as usize];
            // the CLI takes the child by position with nth(); do the same
            let mv = op(Op::Book, || book.into_iter().nth(pick)).unwrap();
            *visits.entry(ids[pick]).or_insert(0) += 1;
            ctx.stats.distinct.insert(ids[pick]);
            ctx.stats.distinct_nontrivial.insert(ids[pick]);
            let m = Mv::new(mv.source.to_u8(), mv.dest.to_u8(), 0);
            line.push(m.text());
            let legal = model.legal_moves();
            let feat = format!("depth={depth}");
            if !legal.contains(&m) {
                if legal.iter().any(|x| x.from == m.from && x.to == m.to) {
                    return ctx.fail(Prop::C17, "book.needs-promotion", feat, format!("book move {} needs a promotion choice; line {line:?}", m.text()));
                }
                return ctx.fail(Prop::C17, "book.illegal", feat, format!("book move {} is illegal by the reference rules; line {line:?}", m.text()));
            }
            let ok = op(Op::Apply, || board.move_mut(ChessMove { source: mv.source, dest: mv.dest, piece: None }));
            if !ok {
                return ctx.fail(Prop::C17, "book.illegal", feat, format!("the checked move operation refused book move {}; line {line:?}", m.text()));
            }
            model = model.make(m);
            ctx.stats.bump("c17.book-moves");
            book = mv.children;
            depth += 1;
        }
        ctx.stats.bump("c17.games");
        ctx.stats.max("max.book-depth", depth as u64);
        // the position reached must be the reference position (sync), then the game goes on for a few plies
        match op(Op::Print, || sut::read_board(&board)) {
            Ok(got) => {
                if got.key() != model.key() {
                    return ctx.fail(Prop::C02, "succ.placement", "after-book".into(), format!("after book line {line:?} the board differs from the reference"));
                }
            }
            Err(e) => return ctx.fail(Prop::C02, "succ.partition", "after-book".into(), e),
        }
        if ctx.stats.samples.len() < 3 {
            ctx.stats.samples.push(format!("book line {}", line.join(" ")));
        }
    }
    ctx.stats.bump("runs.completed");
    Ok(())
}
