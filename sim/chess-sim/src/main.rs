//! chess-sim — deterministic simulation with fault injection for RustyYato/chess.
//! See /verif/DESIGN.md.

#![allow(dead_code)]

mod book;
mod clock;
mod coord;
mod core;
mod game;
mod gen;
mod iter;
mod m2;
mod plugin;
mod refmodel;
mod runner;
mod sut;
mod tape;
mod trace;

use crate::core::{Prop, Tier};

fn usage() -> i32 {
    eprintln!("usage: chess-sim check <ID> <quick|thorough> | replay <file> | selftest [deep] | detlog <ID> <tier> <seed> <start> <stride> <end>");
    2
}

fn tier_of(s: &str) -> Tier {
    if s == "thorough" {
        Tier::Thorough
    } else {
        Tier::Quick
    }
}

fn seed_from_env() -> u64 {
    std::env::var("VERIF_SEED").ok().and_then(|s| s.trim().parse::<u64>().ok()).unwrap_or(coord::DEFAULT_SEED)
}

fn selftest(deep: bool) -> i32 {
    // M1 against the published perft counts
    match refmodel::self_test(deep) {
        Ok(n) => println!("selftest: M1 perft suite ok ({n} nodes)"),
        Err(e) => {
            eprintln!("selftest FAILED: {e}");
            return 2;
        }
    }
    // M1 against M2 on simulated positions
    let mut t = tape::Tape::record(7, 7);
    let mut compared = 0u64;
    let mut unrepresentable = 0u64;
    let games = if deep { 6000 } else { 1500 };
    for g in 0..games {
        let mut p = gen::generate(&mut t, (g % 10) as u32);
        for _ in 0..40 {
            let mut l1 = p.legal_moves();
            l1.sort();
            match m2::legal_moves(&p) {
                Some(l2) => {
                    compared += 1;
                    if l1 != l2 {
                        eprintln!("selftest FAILED: M1 and M2 differ on {}\n M1 {:?}\n M2 {:?}", p.fen(), l1.iter().map(|m| m.text()).collect::<Vec<_>>(), l2.iter().map(|m| m.text()).collect::<Vec<_>>());
                        return 2;
                    }
                    if let Some(c) = m2::is_check(&p) {
                        if c != p.in_check() {
                            eprintln!("selftest FAILED: check status differs on {}", p.fen());
                            return 2;
                        }
                    }
                }
                None => unrepresentable += 1,
            }
            if l1.is_empty() {
                break;
            }
            let m = *t.pick(&l1);
            if let Some((sq2, stm2)) = m2::successor_placement(&p, m) {
                let n = p.make(m);
                if n.sq != sq2 || n.stm != stm2 {
                    eprintln!("selftest FAILED: successor differs after {} on {}", m.text(), p.fen());
                    return 2;
                }
            }
            p = p.make(m);
        }
    }
    println!("selftest: M1 = M2 on {compared} positions ({unrepresentable} not representable in M2)");
    0
}

fn main() {
    let a: Vec<String> = std::env::args().collect();
    let code = match a.get(1).map(|s| s.as_str()) {
        Some("check") if a.len() >= 4 => match Prop::parse(&a[2]) {
            Some(p) => coord::check_main(p, tier_of(&a[3]), seed_from_env()),
            None => usage(),
        },
        Some("worker") if a.len() >= 9 => match Prop::parse(&a[2]) {
            Some(p) => coord::worker_main(p, tier_of(&a[3]), a[4].parse().unwrap_or(0), a[5].parse().unwrap_or(0), a[6].parse().unwrap_or(1), a[7].parse().unwrap_or(0), Some(a[8].clone())),
            None => usage(),
        },
        Some("exec") if a.len() >= 4 => match Prop::parse(&a[2]) {
            Some(p) => coord::exec_main(p, tier_of(&a[3])),
            None => usage(),
        },
        Some("dump") if a.len() >= 7 => match Prop::parse(&a[2]) {
            Some(p) => coord::dump_main(p, tier_of(&a[3]), a[4].parse().unwrap_or(0), a[5].parse().unwrap_or(0), &a[6]),
            None => usage(),
        },
        Some("detlog") if a.len() >= 8 => match Prop::parse(&a[2]) {
            Some(p) => coord::detlog_main(p, tier_of(&a[3]), a[4].parse().unwrap_or(0), a[5].parse().unwrap_or(0), a[6].parse().unwrap_or(1), a[7].parse().unwrap_or(0)),
            None => usage(),
        },
        Some("inproc") if a.len() >= 7 => match Prop::parse(&a[2]) {
            Some(p) => coord::inproc_main(p, tier_of(&a[3]), a[4].parse().unwrap_or(0), a[5].parse().unwrap_or(0), a[6].parse().unwrap_or(1), a.get(7).map(|s| s == "lean").unwrap_or(false)),
            None => usage(),
        },
        Some("replay") if a.len() >= 3 => coord::replay_main(&a[2]),
        Some("selftest") => selftest(a.get(2).map(|s| s == "deep").unwrap_or(false)),
        Some("gen-debug") if a.len() >= 4 => {
            // print what a generator produces (development aid)
            let g: u32 = a[2].parse().unwrap_or(0);
            let n: u64 = a[3].parse().unwrap_or(10);
            let mut max_groups = 0usize;
            let mut max_text = 0usize;
            for i in 0..n {
                let mut t = tape::Tape::record(99, i);
                let p = gen::generate(&mut t, g);
                if p.fen().len() > max_text {
                    max_text = p.fen().len();
                    println!("{} text={} bytes", p.fen(), max_text);
                }
                let l = p.legal_moves();
                let mut groups: Vec<(u8, u8)> = l.iter().map(|m| (m.from, m.promo)).collect();
                groups.sort();
                groups.dedup();
                let mut entries = groups.len();
                for &(from, _) in &groups {
                    let ep = l.iter().any(|&m| m.from == from && p.is_ep_capture(m));
                    let other = l.iter().any(|&m| m.from == from && !p.is_ep_capture(m));
                    if ep && other {
                        entries += 1;
                    }
                }
                if entries > max_groups {
                    max_groups = entries;
                    println!("{} entries={} legal={}", p.fen(), entries, l.len());
                }
            }
            0
        }
        Some("mate-debug") if a.len() >= 3 => {
            // how often the mate hunt delivers each special shape (development aid)
            let n: u64 = a[2].parse().unwrap_or(1000);
            let (mut dbl, mut dbl_sliders, mut only_n, mut none) = (0u64, 0u64, 0u64, 0u64);
            let mut capt_promo = 0u64;
            let mut shown = 0;
            for i in 0..n {
                let mut t = tape::Tape::record(99, i);
                let p = gen::generate(&mut t, 10);
                let mates = p.mating_moves();
                if mates.is_empty() {
                    none += 1;
                    continue;
                }
                let mut d = false;
                let mut ds = false;
                for &m in &mates {
                    let q = p.make(m);
                    if let Some(k) = q.king_sq(q.stm) {
                        let att = q.attackers(k, q.stm ^ 1);
                        if att.len() >= 2 {
                            d = true;
                            if att.iter().all(|&x| matches!(refmodel::kind_of(q.sq[x as usize]), refmodel::B | refmodel::R | refmodel::Q)) {
                                ds = true;
                            }
                        }
                    }
                }
                let on = mates.iter().all(|&m| p.kind(m) == refmodel::MoveKind::PromoN);
                capt_promo += mates.iter().all(|&m| m.promo != 0 && (m.from % 8) != (m.to % 8)) as u64;
                dbl += d as u64;
                dbl_sliders += ds as u64;
                only_n += on as u64;
                if (ds || on) && shown < 6 {
                    shown += 1;
                    println!("{} mates={:?}", p.fen(), mates.iter().map(|m| m.text()).collect::<Vec<_>>());
                }
            }
            println!("of {n}: no mate {none}, double-check mate {dbl}, by two sliders {dbl_sliders}, only knight promotions mate {only_n}, only capturing promotions mate {capt_promo}");
            0
        }
        _ => usage(),
    };
    std::process::exit(code);
}
