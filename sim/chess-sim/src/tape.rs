//! The tape: the single source of every choice a simulated run makes.
//!
//! Record mode draws from an own xoshiro256** generator seeded from
//! (VERIF_SEED, run index) and remembers every value; replay mode reads the
//! values back (`value mod n`, exhausted tape => 0).  A run is a pure function
//! of (tape, code).

#[derive(Clone)]
pub struct Rng {
    s: [u64; 4],
}

#[inline]
fn splitmix(x: &mut u64) -> u64 {
    *x = x.wrapping_add(0x9E37_79B9_7F4A_7C15);
    let mut z = *x;
    z = (z ^ (z >> 30)).wrapping_mul(0xBF58_476D_1CE4_E5B9);
    z = (z ^ (z >> 27)).wrapping_mul(0x94D0_49BB_1331_11EB);
    z ^ (z >> 31)
}

impl Rng {
    pub fn new(seed: u64, stream: u64) -> Self {
        let mut x = seed ^ stream.wrapping_mul(0xD6E8_FEB8_6659_FD93).rotate_left(17);
        let mut y = stream.wrapping_add(0xA076_1D64_78BD_642F);
        let a = splitmix(&mut x);
        let b = splitmix(&mut y);
        let c = splitmix(&mut x);
        let d = splitmix(&mut y);
        let mut r = Rng { s: [a ^ d.rotate_left(7), b, c, d | 1] };
        for _ in 0..8 {
            r.next_u64();
        }
        r
    }
    #[inline]
    pub fn next_u64(&mut self) -> u64 {
        let s = &mut self.s;
        let result = s[1].wrapping_mul(5).rotate_left(7).wrapping_mul(9);
        let t = s[1] << 17;
        s[2] ^= s[0];
        s[3] ^= s[1];
        s[1] ^= s[2];
        s[0] ^= s[3];
        s[2] ^= t;
        s[3] = s[3].rotate_left(45);
        result
    }
}

/// mirror of the choices made by the run in progress, readable from the panic hook and
/// from the watchdog thread (which cannot reach the tape owned by the running thread)
pub static MIRROR: std::sync::Mutex<Vec<u32>> = std::sync::Mutex::new(Vec::new());

pub fn mirror_snapshot() -> Vec<u32> {
    match MIRROR.try_lock() {
        Ok(g) => g.clone(),
        Err(_) => Vec::new(),
    }
}

fn mirror_reset() {
    if let Ok(mut g) = MIRROR.lock() {
        g.clear();
    }
}

enum Mode {
    Record(Rng),
    Replay { pos: usize },
}

pub struct Tape {
    mode: Mode,
    /// the values chosen so far (record) or the values to replay
    pub vals: Vec<u32>,
    /// `marks[i]` = index into vals where the i-th step boundary starts
    pub marks: Vec<u32>,
    /// number of choices consumed
    pub used: usize,
    /// if set, every decision is flushed to this fd as it is made (abort pinning)
    dump: Option<std::fs::File>,
}

impl Tape {
    pub fn record(seed: u64, run: u64) -> Self {
        mirror_reset();
        Tape { mode: Mode::Record(Rng::new(seed, run)), vals: Vec::new(), marks: Vec::new(), used: 0, dump: None }
    }
    pub fn replay(vals: Vec<u32>) -> Self {
        mirror_reset();
        Tape { mode: Mode::Replay { pos: 0 }, vals, marks: Vec::new(), used: 0, dump: None }
    }
    pub fn set_dump(&mut self, f: std::fs::File) {
        self.dump = Some(f);
    }
    pub fn is_replay(&self) -> bool {
        matches!(self.mode, Mode::Replay { .. })
    }

    /// uniform value in 0..n (n >= 1).  Value 0 is by convention the simplest
    /// alternative, so that lowering tape values simplifies the run.
    #[inline]
    pub fn choose(&mut self, n: u32) -> u32 {
        debug_assert!(n >= 1);
        let n = n.max(1);
        self.used = self.used.wrapping_add(1);
        let v = match &mut self.mode {
            Mode::Record(rng) => {
                let v = if n == 1 { 0 } else { ((rng.next_u64() >> 32).wrapping_mul(n as u64) >> 32) as u32 };
                self.vals.push(v);
                v
            }
            Mode::Replay { pos } => {
                let v = if *pos < self.vals.len() {
                    let v = self.vals[*pos] % n;
                    self.vals[*pos] = v; // keep the tape normalised
                    v
                } else {
                    0
                };
                *pos = pos.wrapping_add(1);
                v
            }
        };
        if let Ok(mut g) = MIRROR.try_lock() {
            g.push(v);
        }
        if let Some(f) = &mut self.dump {
            use std::io::Write;
            let _ = writeln!(f, "{v}");
        }
        v
    }

    /// true with probability num/den
    #[inline]
    pub fn chance(&mut self, num: u32, den: u32) -> bool {
        // value 0 must mean "no" so that shrinking removes faults
        let v = self.choose(den);
        v >= den.wrapping_sub(num)
    }

    #[inline]
    pub fn range(&mut self, lo: u32, hi_incl: u32) -> u32 {
        lo.wrapping_add(self.choose(hi_incl.wrapping_sub(lo).wrapping_add(1)))
    }

    /// log-uniform value in 0..=max (max >= 1): first a bit length, then a value
    pub fn log_uniform(&mut self, max: u32) -> u32 {
        let bits = 32u32.wrapping_sub(max.leading_zeros());
        let b = self.choose(bits.wrapping_add(1));
        if b == 0 {
            return 0;
        }
        let lo = 1u32 << b.wrapping_sub(1);
        let hi = if b >= 32 { u32::MAX } else { (1u32 << b).wrapping_sub(1) };
        let hi = hi.min(max);
        if lo > hi {
            return max;
        }
        self.range(lo, hi)
    }

    pub fn pick<'a, T>(&mut self, xs: &'a [T]) -> &'a T {
        let i = self.choose(xs.len() as u32) as usize;
        &xs[i]
    }

    /// mark a step boundary (used by the minimiser to delete whole steps)
    pub fn mark(&mut self) {
        let p = match &self.mode {
            Mode::Record(_) => self.vals.len(),
            Mode::Replay { pos } => *pos,
        };
        self.marks.push(p as u32);
    }

    /// the tape actually consumed so far (for a replay this is the prefix read)
    pub fn consumed(&self) -> Vec<u32> {
        match &self.mode {
            Mode::Record(_) => self.vals.clone(),
            Mode::Replay { pos } => {
                let mut v: Vec<u32> = self.vals.iter().take(*pos).cloned().collect();
                while v.len() < *pos {
                    v.push(0);
                }
                v
            }
        }
    }
}

/// stable 64-bit hash for observation logs (FNV-1a)
pub fn fnv(h: &mut u64, bytes: &[u8]) {
    for b in bytes {
        *h ^= *b as u64;
        *h = h.wrapping_mul(0x0000_0100_0000_01B3);
    }
}
pub const FNV0: u64 = 0xcbf2_9ce4_8422_2325;
