//! Adapter between the model's plain data and the repository's types.
//! Only public API of the repository crates is used.

use crate::refmodel::{self as m1, Mv, Pos1};
use chess_bitboard::{BitBoard, Color, File, Piece, Pos, PromotionPiece, Rank};
use chess_movegen::{Board, ChessMove, GameState};

#[inline]
pub fn pos(s: u8) -> Pos {
    Pos::from_u8(s & 63).unwrap()
}
#[inline]
pub fn color(c: u8) -> Color {
    if c == m1::WHITE {
        Color::White
    } else {
        Color::Black
    }
}
#[inline]
pub fn piece(k: u8) -> Piece {
    match k {
        m1::P => Piece::Pawn,
        m1::N => Piece::Knight,
        m1::B => Piece::Bishop,
        m1::R => Piece::Rook,
        m1::Q => Piece::Queen,
        _ => Piece::King,
    }
}
#[inline]
pub fn kind(p: Piece) -> u8 {
    match p {
        Piece::Pawn => m1::P,
        Piece::Knight => m1::N,
        Piece::Bishop => m1::B,
        Piece::Rook => m1::R,
        Piece::Queen => m1::Q,
        Piece::King => m1::K,
    }
}
#[inline]
pub fn promo(k: u8) -> Option<PromotionPiece> {
    match k {
        m1::N => Some(PromotionPiece::Knight),
        m1::B => Some(PromotionPiece::Bishop),
        m1::R => Some(PromotionPiece::Rook),
        m1::Q => Some(PromotionPiece::Queen),
        _ => None,
    }
}
#[inline]
pub fn mv(m: Mv) -> ChessMove {
    ChessMove { source: pos(m.from), dest: pos(m.to), piece: promo(m.promo) }
}
#[inline]
pub fn unmv(m: ChessMove) -> Mv {
    Mv::new(
        m.source.to_u8(),
        m.dest.to_u8(),
        match m.piece {
            None => 0,
            Some(PromotionPiece::Knight) => m1::N,
            Some(PromotionPiece::Bishop) => m1::B,
            Some(PromotionPiece::Rook) => m1::R,
            Some(PromotionPiece::Queen) => m1::Q,
        },
    )
}
pub fn file(f: u8) -> File {
    File::from_u8(f & 7).unwrap()
}
pub fn rank(r: u8) -> Rank {
    Rank::from_u8(r & 7).unwrap()
}
pub fn bb(mask: u64) -> BitBoard {
    BitBoard::from_u64(mask)
}

/// the SUT's legal moves, collected through the iterator, sorted
pub fn legals_sorted(b: &Board) -> Vec<Mv> {
    let mut v: Vec<Mv> = b.legals().map(unmv).collect();
    v.sort();
    v
}

pub fn status(b: &Board) -> m1::Status {
    match b.state() {
        GameState::CheckMate => m1::Status::CheckMate,
        GameState::StaleMate => m1::Status::Draw,
        GameState::Check => m1::Status::Check,
        GameState::Running => m1::Status::Running,
    }
}

/// Read the SUT board back into model data through its public surface:
/// squares via `raw().get`, side via `turn()`, clocks via the accessors,
/// castling rights and ep marker via fields 3-4 of the `Display` text
/// (they have no accessor).  Returns Err with a description when the public
/// surface is inconsistent (colour/piece sets not a partition, unparsable text).
pub fn read_board(b: &Board) -> Result<Pos1, String> {
    let mut p = Pos1::empty();
    let raw = b.raw();
    for s in 0..64u8 {
        let ps = pos(s);
        let in_w = raw[Color::White].contains(ps);
        let in_b = raw[Color::Black].contains(ps);
        let mut kinds = 0;
        let mut k = 0u8;
        for pc in Piece::all() {
            if raw[pc].contains(ps) {
                kinds += 1;
                k = kind(pc);
            }
        }
        match (in_w, in_b, kinds) {
            (false, false, 0) => {}
            (true, false, 1) => p.sq[s as usize] = m1::pc(m1::WHITE, k),
            (false, true, 1) => p.sq[s as usize] = m1::pc(m1::BLACK, k),
            _ => return Err(format!("partition broken at square {s}: white={in_w} black={in_b} piece-sets={kinds}")),
        }
        // the accessor must agree with the sets
        let via_get = raw.get(ps).map(|(c, pc)| m1::pc(if c == Color::White { m1::WHITE } else { m1::BLACK }, kind(pc)));
        if via_get.unwrap_or(0) != p.sq[s as usize] {
            return Err(format!("raw().get disagrees with the colour/piece sets at square {s}"));
        }
    }
    p.stm = if b.turn() == Color::White { m1::WHITE } else { m1::BLACK };
    p.hmc = b.half_move_clock() as u32;
    p.fmn = b.full_move_clock() as u32;
    let text = b.to_string();
    let fields: Vec<&str> = text.split(' ').collect();
    if fields.len() != 6 {
        return Err(format!("Display text has {} fields: {text:?}", fields.len()));
    }
    if fields[2] != "-" {
        for ch in fields[2].chars() {
            match ch {
                'K' => p.cr[m1::WK] = true,
                'Q' => p.cr[m1::WQ] = true,
                'k' => p.cr[m1::BK] = true,
                'q' => p.cr[m1::BQ] = true,
                _ => return Err(format!("Display castling field {:?}", fields[2])),
            }
        }
    }
    if fields[3] != "-" {
        let bts = fields[3].as_bytes();
        if bts.len() != 2 || !(b'a'..=b'h').contains(&bts[0]) {
            return Err(format!("Display ep field {:?}", fields[3]));
        }
        p.ep = Some(bts[0] - b'a');
    }
    Ok(p)
}

/// hand a model position to the real code through its FEN parser
pub fn to_board(p: &Pos1) -> Result<Board, String> {
    chess_movegen::fen::parse_fen(p.fen().as_bytes()).map_err(|e| format!("{e:?}"))
}

/// hand a model position to the real code through `BoardBuilder`
/// (only positions without castling rights can be expressed: the argument type
/// of `BoardBuilder::castle_rights` lives in a private module)
pub fn to_board_builder(p: &Pos1) -> Option<Result<Board, String>> {
    if p.cr.iter().any(|&x| x) || p.hmc > u16::MAX as u32 || p.fmn > u16::MAX as u32 {
        return None;
    }
    let mut b = Board::builder();
    for s in 0..64u8 {
        let x = p.sq[s as usize];
        if x != m1::EMPTY {
            if b.place(pos(s), color(m1::color_of(x)), piece(m1::kind_of(x))).is_err() {
                return Some(Err("place refused".into()));
            }
        }
    }
    b.turn(color(p.stm));
    b.enpassant(p.ep.map(file));
    b.half_move_clock(p.hmc as u16);
    b.full_move_clock(p.fmn as u16);
    Some(b.build().map_err(|e| format!("{e:?}")))
}

/// what a loaded board shows differs from the position that was loaded: which component
pub fn load_mismatch(b: &Board, p: &Pos1) -> Option<String> {
    match read_board(b) {
        Ok(g) if g == *p => None,
        Ok(g) => {
            let what = if g.sq != p.sq {
                "placement"
            } else if g.stm != p.stm {
                "turn"
            } else if g.cr != p.cr {
                "rights"
            } else if g.ep != p.ep {
                "ep"
            } else if g.hmc != p.hmc {
                "halfmove"
            } else {
                "fullmove"
            };
            Some(what.to_string())
        }
        Err(_) => Some("partition".to_string()),
    }
}
