//! M1 — own mailbox reference model of the rules of chess.
//!
//! 8x8 array, pseudo-legal generation by stepping rays square by square,
//! make-move on a copy, "king attacked" by scanning outward from the king.
//! No bitboards, no tables, nothing from `chess-lookup`.
//!
//! Squares: 0 = a1, 1 = b1, ... 63 = h8.  Piece codes: 0 empty,
//! 1..=6 white P N B R Q K, 9..=14 black p n b r q k.

use std::fmt::Write as _;

pub const EMPTY: u8 = 0;
pub const P: u8 = 1;
pub const N: u8 = 2;
pub const B: u8 = 3;
pub const R: u8 = 4;
pub const Q: u8 = 5;
pub const K: u8 = 6;
pub const WHITE: u8 = 0;
pub const BLACK: u8 = 1;

#[inline]
pub fn pc(color: u8, kind: u8) -> u8 {
    (color << 3) | kind
}
#[inline]
pub fn color_of(p: u8) -> u8 {
    p >> 3
}
#[inline]
pub fn kind_of(p: u8) -> u8 {
    p & 7
}
#[inline]
pub fn file_of(s: u8) -> u8 {
    s & 7
}
#[inline]
pub fn rank_of(s: u8) -> u8 {
    s >> 3
}
#[inline]
pub fn sq(file: u8, rank: u8) -> u8 {
    (rank << 3) | file
}

/// castling rights order: white king side, white queen side, black king side, black queen side
pub const WK: usize = 0;
pub const WQ: usize = 1;
pub const BK: usize = 2;
pub const BQ: usize = 3;

#[derive(Clone, PartialEq, Eq, Hash, Debug)]
pub struct Pos1 {
    pub sq: [u8; 64],
    pub stm: u8,
    pub cr: [bool; 4],
    /// en-passant *marker*: file of the pawn that just made a double step
    pub ep: Option<u8>,
    pub hmc: u32,
    pub fmn: u32,
}

#[derive(Clone, Copy, PartialEq, Eq, Hash, PartialOrd, Ord, Debug)]
pub struct Mv {
    pub from: u8,
    pub to: u8,
    /// 0 none, else N B R Q piece kind (2..=5)
    pub promo: u8,
}

impl Mv {
    pub fn new(from: u8, to: u8, promo: u8) -> Self {
        Mv { from, to, promo }
    }
    pub fn text(&self) -> String {
        let mut s = String::new();
        s.push((b'a' + file_of(self.from)) as char);
        s.push((b'1' + rank_of(self.from)) as char);
        s.push((b'a' + file_of(self.to)) as char);
        s.push((b'1' + rank_of(self.to)) as char);
        match self.promo {
            N => s.push('n'),
            B => s.push('b'),
            R => s.push('r'),
            Q => s.push('q'),
            _ => {}
        }
        s
    }
}

#[derive(Clone, Copy, PartialEq, Eq, Debug)]
pub enum Status {
    CheckMate,
    Draw,
    Check,
    Running,
}

#[derive(Clone, Copy, PartialEq, Eq, Debug, PartialOrd, Ord)]
pub enum MoveKind {
    Quiet,
    Capture,
    DoubleStep,
    EnPassant,
    CastleK,
    CastleQ,
    PromoN,
    PromoB,
    PromoR,
    PromoQ,
}

const KNIGHT_D: [(i8, i8); 8] = [(1, 2), (2, 1), (2, -1), (1, -2), (-1, -2), (-2, -1), (-2, 1), (-1, 2)];
const KING_D: [(i8, i8); 8] = [(1, 0), (1, 1), (0, 1), (-1, 1), (-1, 0), (-1, -1), (0, -1), (1, -1)];
const ROOK_D: [(i8, i8); 4] = [(1, 0), (0, 1), (-1, 0), (0, -1)];
const BISHOP_D: [(i8, i8); 4] = [(1, 1), (-1, 1), (-1, -1), (1, -1)];

#[inline]
fn step(s: u8, d: (i8, i8)) -> Option<u8> {
    let f = file_of(s) as i8 + d.0;
    let r = rank_of(s) as i8 + d.1;
    if (0..8).contains(&f) && (0..8).contains(&r) {
        Some(sq(f as u8, r as u8))
    } else {
        None
    }
}

impl Pos1 {
    pub fn empty() -> Self {
        Pos1 { sq: [0; 64], stm: WHITE, cr: [false; 4], ep: None, hmc: 0, fmn: 0 }
    }

    pub fn standard() -> Self {
        let mut p = Pos1::empty();
        let back = [R, N, B, Q, K, B, N, R];
        for f in 0..8u8 {
            p.sq[sq(f, 0) as usize] = pc(WHITE, back[f as usize]);
            p.sq[sq(f, 1) as usize] = pc(WHITE, P);
            p.sq[sq(f, 6) as usize] = pc(BLACK, P);
            p.sq[sq(f, 7) as usize] = pc(BLACK, back[f as usize]);
        }
        p.cr = [true; 4];
        // the repository's standard position carries full-move number 0
        p
    }

    pub fn king_sq(&self, color: u8) -> Option<u8> {
        let k = pc(color, K);
        (0..64u8).find(|&s| self.sq[s as usize] == k)
    }

    /// is square `s` attacked by a piece of colour `by`?
    pub fn attacked(&self, s: u8, by: u8) -> bool {
        // knights
        for d in KNIGHT_D {
            if let Some(t) = step(s, d) {
                if self.sq[t as usize] == pc(by, N) {
                    return true;
                }
            }
        }
        // king
        for d in KING_D {
            if let Some(t) = step(s, d) {
                if self.sq[t as usize] == pc(by, K) {
                    return true;
                }
            }
        }
        // pawns: a white pawn on t attacks t+(±1,+1)
        let dr: i8 = if by == WHITE { -1 } else { 1 };
        for df in [-1i8, 1] {
            if let Some(t) = step(s, (df, dr)) {
                if self.sq[t as usize] == pc(by, P) {
                    return true;
                }
            }
        }
        // sliders
        for d in ROOK_D {
            let mut cur = s;
            while let Some(t) = step(cur, d) {
                let x = self.sq[t as usize];
                if x != EMPTY {
                    if color_of(x) == by && (kind_of(x) == R || kind_of(x) == Q) {
                        return true;
                    }
                    break;
                }
                cur = t;
            }
        }
        for d in BISHOP_D {
            let mut cur = s;
            while let Some(t) = step(cur, d) {
                let x = self.sq[t as usize];
                if x != EMPTY {
                    if color_of(x) == by && (kind_of(x) == B || kind_of(x) == Q) {
                        return true;
                    }
                    break;
                }
                cur = t;
            }
        }
        false
    }

    /// squares from which pieces of colour `by` attack `s` (for checker counting)
    pub fn attackers(&self, s: u8, by: u8) -> Vec<u8> {
        let mut out = Vec::new();
        for d in KNIGHT_D {
            if let Some(t) = step(s, d) {
                if self.sq[t as usize] == pc(by, N) {
                    out.push(t);
                }
            }
        }
        for d in KING_D {
            if let Some(t) = step(s, d) {
                if self.sq[t as usize] == pc(by, K) {
                    out.push(t);
                }
            }
        }
        let dr: i8 = if by == WHITE { -1 } else { 1 };
        for df in [-1i8, 1] {
            if let Some(t) = step(s, (df, dr)) {
                if self.sq[t as usize] == pc(by, P) {
                    out.push(t);
                }
            }
        }
        for (dirs, k) in [(ROOK_D, R), (BISHOP_D, B)] {
            for d in dirs {
                let mut cur = s;
                while let Some(t) = step(cur, d) {
                    let x = self.sq[t as usize];
                    if x != EMPTY {
                        if color_of(x) == by && (kind_of(x) == k || kind_of(x) == Q) {
                            out.push(t);
                        }
                        break;
                    }
                    cur = t;
                }
            }
        }
        out
    }

    pub fn in_check(&self) -> bool {
        match self.king_sq(self.stm) {
            Some(k) => self.attacked(k, self.stm ^ 1),
            None => false,
        }
    }

    fn push_pawn_moves(&self, from: u8, to: u8, out: &mut Vec<Mv>) {
        let last = if self.stm == WHITE { 7 } else { 0 };
        if rank_of(to) == last {
            for p in [Q, R, B, N] {
                out.push(Mv::new(from, to, p));
            }
        } else {
            out.push(Mv::new(from, to, 0));
        }
    }

    /// pseudo-legal moves (own king may be left attacked); castling is fully checked here
    pub fn pseudo_legal(&self) -> Vec<Mv> {
        let mut out = Vec::with_capacity(64);
        let us = self.stm;
        let them = us ^ 1;
        for s in 0..64u8 {
            let x = self.sq[s as usize];
            if x == EMPTY || color_of(x) != us {
                continue;
            }
            match kind_of(x) {
                P => {
                    let dr: i8 = if us == WHITE { 1 } else { -1 };
                    let start = if us == WHITE { 1 } else { 6 };
                    if let Some(t) = step(s, (0, dr)) {
                        if self.sq[t as usize] == EMPTY {
                            self.push_pawn_moves(s, t, &mut out);
                            if rank_of(s) == start {
                                if let Some(t2) = step(t, (0, dr)) {
                                    if self.sq[t2 as usize] == EMPTY {
                                        out.push(Mv::new(s, t2, 0));
                                    }
                                }
                            }
                        }
                    }
                    for df in [-1i8, 1] {
                        if let Some(t) = step(s, (df, dr)) {
                            let y = self.sq[t as usize];
                            if y != EMPTY && color_of(y) == them {
                                self.push_pawn_moves(s, t, &mut out);
                            }
                        }
                    }
                    // en passant
                    if let Some(ef) = self.ep {
                        let (pawn_rank, cap_rank) = if us == WHITE { (4, 5) } else { (3, 2) };
                        if rank_of(s) == pawn_rank && (file_of(s) as i8 - ef as i8).abs() == 1 {
                            let target = sq(ef, cap_rank);
                            let victim = sq(ef, pawn_rank);
                            if self.sq[target as usize] == EMPTY && self.sq[victim as usize] == pc(them, P) {
                                out.push(Mv::new(s, target, 0));
                            }
                        }
                    }
                }
                N => {
                    for d in KNIGHT_D {
                        if let Some(t) = step(s, d) {
                            let y = self.sq[t as usize];
                            if y == EMPTY || color_of(y) == them {
                                out.push(Mv::new(s, t, 0));
                            }
                        }
                    }
                }
                K => {
                    for d in KING_D {
                        if let Some(t) = step(s, d) {
                            let y = self.sq[t as usize];
                            if y == EMPTY || color_of(y) == them {
                                out.push(Mv::new(s, t, 0));
                            }
                        }
                    }
                    // castling
                    let home = if us == WHITE { 4 } else { 60 };
                    if s == home && !self.attacked(home, them) {
                        let (ks, qs) = if us == WHITE { (WK, WQ) } else { (BK, BQ) };
                        if self.cr[ks]
                            && self.sq[(home + 3) as usize] == pc(us, R)
                            && self.sq[(home + 1) as usize] == EMPTY
                            && self.sq[(home + 2) as usize] == EMPTY
                            && !self.attacked(home + 1, them)
                            && !self.attacked(home + 2, them)
                        {
                            out.push(Mv::new(home, home + 2, 0));
                        }
                        if self.cr[qs]
                            && self.sq[(home - 4) as usize] == pc(us, R)
                            && self.sq[(home - 1) as usize] == EMPTY
                            && self.sq[(home - 2) as usize] == EMPTY
                            && self.sq[(home - 3) as usize] == EMPTY
                            && !self.attacked(home - 1, them)
                            && !self.attacked(home - 2, them)
                        {
                            out.push(Mv::new(home, home - 2, 0));
                        }
                    }
                }
                k => {
                    let dirs: &[(i8, i8)] = match k {
                        R => &ROOK_D,
                        B => &BISHOP_D,
                        _ => &KING_D, // queen: all eight directions
                    };
                    for &d in dirs {
                        let mut cur = s;
                        while let Some(t) = step(cur, d) {
                            let y = self.sq[t as usize];
                            if y == EMPTY {
                                out.push(Mv::new(s, t, 0));
                            } else {
                                if color_of(y) == them {
                                    out.push(Mv::new(s, t, 0));
                                }
                                break;
                            }
                            cur = t;
                        }
                    }
                }
            }
        }
        out
    }

    pub fn is_castle(&self, m: Mv) -> bool {
        kind_of(self.sq[m.from as usize]) == K && (file_of(m.from) as i8 - file_of(m.to) as i8).abs() == 2
    }

    pub fn is_ep_capture(&self, m: Mv) -> bool {
        kind_of(self.sq[m.from as usize]) == P && file_of(m.from) != file_of(m.to) && self.sq[m.to as usize] == EMPTY
    }

    pub fn kind(&self, m: Mv) -> MoveKind {
        match m.promo {
            N => return MoveKind::PromoN,
            B => return MoveKind::PromoB,
            R => return MoveKind::PromoR,
            Q => return MoveKind::PromoQ,
            _ => {}
        }
        if self.is_castle(m) {
            return if file_of(m.to) == 6 { MoveKind::CastleK } else { MoveKind::CastleQ };
        }
        if self.is_ep_capture(m) {
            return MoveKind::EnPassant;
        }
        if self.sq[m.to as usize] != EMPTY {
            return MoveKind::Capture;
        }
        if kind_of(self.sq[m.from as usize]) == P && (rank_of(m.from) as i8 - rank_of(m.to) as i8).abs() == 2 {
            return MoveKind::DoubleStep;
        }
        MoveKind::Quiet
    }

    /// apply a (pseudo-)legal move; the move must come from `pseudo_legal`
    pub fn make(&self, m: Mv) -> Pos1 {
        let mut n = self.clone();
        let us = self.stm;
        let them = us ^ 1;
        let piece = self.sq[m.from as usize];
        let kind = kind_of(piece);
        let captured = self.sq[m.to as usize];
        let mut reset = captured != EMPTY || kind == P;
        n.ep = None;
        n.sq[m.from as usize] = EMPTY;
        n.sq[m.to as usize] = if m.promo != 0 { pc(us, m.promo) } else { piece };
        if kind == P {
            if self.is_ep_capture(m) {
                let victim = sq(file_of(m.to), rank_of(m.from));
                n.sq[victim as usize] = EMPTY;
                reset = true;
            }
            if (rank_of(m.from) as i8 - rank_of(m.to) as i8).abs() == 2 {
                n.ep = Some(file_of(m.to));
            }
        }
        if kind == K {
            if self.is_castle(m) {
                let r = rank_of(m.from);
                if file_of(m.to) == 6 {
                    n.sq[sq(7, r) as usize] = EMPTY;
                    n.sq[sq(5, r) as usize] = pc(us, R);
                } else {
                    n.sq[sq(0, r) as usize] = EMPTY;
                    n.sq[sq(3, r) as usize] = pc(us, R);
                }
            }
            if us == WHITE {
                n.cr[WK] = false;
                n.cr[WQ] = false;
            } else {
                n.cr[BK] = false;
                n.cr[BQ] = false;
            }
        }
        // a rook leaving its home square, or anything captured on a rook home square
        for (s, right, owner) in [(0u8, WQ, WHITE), (7, WK, WHITE), (56, BQ, BLACK), (63, BK, BLACK)] {
            if (m.from == s && us == owner) || (m.to == s && them == owner) {
                n.cr[right] = false;
            }
        }
        n.hmc = if reset { 0 } else { self.hmc.wrapping_add(1) };
        if us == BLACK {
            n.fmn = self.fmn.wrapping_add(1);
        }
        n.stm = them;
        n
    }

    pub fn legal_moves(&self) -> Vec<Mv> {
        let us = self.stm;
        let mut out = Vec::new();
        for m in self.pseudo_legal() {
            let n = self.make(m);
            if let Some(k) = n.king_sq(us) {
                if !n.attacked(k, us ^ 1) {
                    out.push(m);
                }
            }
        }
        out
    }

    /// pseudo-legal but illegal moves (leave the own king attacked)
    pub fn pseudo_illegal(&self) -> Vec<Mv> {
        let us = self.stm;
        let mut out = Vec::new();
        for m in self.pseudo_legal() {
            let n = self.make(m);
            if let Some(k) = n.king_sq(us) {
                if n.attacked(k, us ^ 1) {
                    out.push(m);
                }
            }
        }
        out
    }

    pub fn status(&self) -> Status {
        let none = self.legal_moves().is_empty();
        let chk = self.in_check();
        if none && chk {
            Status::CheckMate
        } else if none || self.hmc >= 100 {
            Status::Draw
        } else if chk {
            Status::Check
        } else {
            Status::Running
        }
    }

    /// (placement, side, rights, ep marker) — the identity of a position for
    /// repetition and hashing purposes
    pub fn key(&self) -> PosKey {
        PosKey { sq: self.sq, stm: self.stm, cr: self.cr, ep: self.ep }
    }

    pub fn count(&self, color: u8) -> usize {
        self.sq.iter().filter(|&&x| x != EMPTY && color_of(x) == color).count()
    }

    pub fn has_backrank_pawn(&self) -> bool {
        (0..8u8).any(|f| kind_of(self.sq[sq(f, 0) as usize]) == P || kind_of(self.sq[sq(f, 7) as usize]) == P)
    }

    /// The validity list of property C06, evaluated on the model.
    /// Returns the name of the first clause that fails.
    pub fn validity(&self) -> Result<(), &'static str> {
        let wk = self.sq.iter().filter(|&&x| x == pc(WHITE, K)).count();
        let bk = self.sq.iter().filter(|&&x| x == pc(BLACK, K)).count();
        if wk != 1 || bk != 1 {
            return Err("kings");
        }
        if self.count(WHITE) > 16 || self.count(BLACK) > 16 {
            return Err("count");
        }
        let them = self.stm ^ 1;
        if let Some(k) = self.king_sq(them) {
            if self.attacked(k, self.stm) {
                return Err("opp-in-check");
            }
        }
        let need = [
            (WK, 4u8, 7u8, WHITE),
            (WQ, 4, 0, WHITE),
            (BK, 60, 63, BLACK),
            (BQ, 60, 56, BLACK),
        ];
        for (right, ks, rs, c) in need {
            if self.cr[right] && (self.sq[ks as usize] != pc(c, K) || self.sq[rs as usize] != pc(c, R)) {
                return Err(match right {
                    WK => "rights-K",
                    WQ => "rights-Q",
                    BK => "rights-k",
                    _ => "rights-q",
                });
            }
        }
        if let Some(f) = self.ep {
            // marker on an empty square directly behind an enemy pawn on its double-step rank
            let (pawn_rank, cap_rank) = if self.stm == WHITE { (4, 5) } else { (3, 2) };
            if self.sq[sq(f, cap_rank) as usize] != EMPTY || self.sq[sq(f, pawn_rank) as usize] != pc(them, P) {
                return Err("ep");
            }
        }
        Ok(())
    }

    /// additional plausibility (not part of C06): the origin square of the
    /// double step must be empty too.  Used only by generators.
    pub fn ep_origin_empty(&self) -> bool {
        match self.ep {
            Some(f) => {
                let origin = if self.stm == WHITE { 6 } else { 1 };
                self.sq[sq(f, origin) as usize] == EMPTY
            }
            None => true,
        }
    }

    pub fn fen_piece(p: u8) -> char {
        let c = match kind_of(p) {
            P => 'p',
            N => 'n',
            B => 'b',
            R => 'r',
            Q => 'q',
            _ => 'k',
        };
        if color_of(p) == WHITE {
            c.to_ascii_uppercase()
        } else {
            c
        }
    }

    /// independent FEN writer.  The en-passant field is the marker: the square
    /// behind the pawn that just made a double step (on the mover's sixth rank),
    /// printed whether or not a capture is possible.
    pub fn fen(&self) -> String {
        let mut s = String::new();
        for r in (0..8u8).rev() {
            let mut run = 0;
            for f in 0..8u8 {
                let x = self.sq[sq(f, r) as usize];
                if x == EMPTY {
                    run += 1;
                } else {
                    if run > 0 {
                        let _ = write!(s, "{run}");
                        run = 0;
                    }
                    s.push(Self::fen_piece(x));
                }
            }
            if run > 0 {
                let _ = write!(s, "{run}");
            }
            if r != 0 {
                s.push('/');
            }
        }
        s.push(' ');
        s.push(if self.stm == WHITE { 'w' } else { 'b' });
        s.push(' ');
        let names = ['K', 'Q', 'k', 'q'];
        let mut any = false;
        for i in 0..4 {
            if self.cr[i] {
                s.push(names[i]);
                any = true;
            }
        }
        if !any {
            s.push('-');
        }
        s.push(' ');
        match self.ep {
            Some(f) => {
                s.push((b'a' + f) as char);
                s.push(if self.stm == WHITE { '6' } else { '3' });
            }
            None => s.push('-'),
        }
        let _ = write!(s, " {} {}", self.hmc, self.fmn);
        s
    }

    /// strict reader of canonical FEN text as written by `fen`
    pub fn from_fen(text: &str) -> Option<Pos1> {
        let parts: Vec<&str> = text.split(' ').collect();
        if parts.len() != 6 {
            return None;
        }
        let mut p = Pos1::empty();
        let rows: Vec<&str> = parts[0].split('/').collect();
        if rows.len() != 8 {
            return None;
        }
        for (i, row) in rows.iter().enumerate() {
            let r = 7 - i as u8;
            let mut f = 0u8;
            for ch in row.chars() {
                if let Some(d) = ch.to_digit(10) {
                    if d == 0 || d > 8 {
                        return None;
                    }
                    f += d as u8;
                } else {
                    let color = if ch.is_ascii_uppercase() { WHITE } else { BLACK };
                    let kind = match ch.to_ascii_lowercase() {
                        'p' => P,
                        'n' => N,
                        'b' => B,
                        'r' => R,
                        'q' => Q,
                        'k' => K,
                        _ => return None,
                    };
                    if f >= 8 {
                        return None;
                    }
                    p.sq[sq(f, r) as usize] = pc(color, kind);
                    f += 1;
                }
                if f > 8 {
                    return None;
                }
            }
            if f != 8 {
                return None;
            }
        }
        p.stm = match parts[1] {
            "w" => WHITE,
            "b" => BLACK,
            _ => return None,
        };
        if parts[2] != "-" {
            for ch in parts[2].chars() {
                match ch {
                    'K' => p.cr[WK] = true,
                    'Q' => p.cr[WQ] = true,
                    'k' => p.cr[BK] = true,
                    'q' => p.cr[BQ] = true,
                    _ => return None,
                }
            }
        }
        if parts[3] != "-" {
            let b = parts[3].as_bytes();
            if b.len() != 2 || !(b'a'..=b'h').contains(&b[0]) {
                return None;
            }
            p.ep = Some(b[0] - b'a');
        }
        p.hmc = parts[4].parse().ok()?;
        p.fmn = parts[5].parse().ok()?;
        Some(p)
    }

    /// swap the colours and flip the ranks
    pub fn mirror(&self) -> Pos1 {
        let mut m = Pos1::empty();
        for s in 0..64u8 {
            let x = self.sq[s as usize];
            if x != EMPTY {
                let t = sq(file_of(s), 7 - rank_of(s));
                m.sq[t as usize] = pc(color_of(x) ^ 1, kind_of(x));
            }
        }
        m.stm = self.stm ^ 1;
        m.cr = [self.cr[BK], self.cr[BQ], self.cr[WK], self.cr[WQ]];
        m.ep = self.ep;
        m.hmc = self.hmc;
        m.fmn = self.fmn;
        m
    }

    pub fn perft(&self, depth: u32) -> u64 {
        if depth == 0 {
            return 1;
        }
        let ms = self.legal_moves();
        if depth == 1 {
            return ms.len() as u64;
        }
        let mut n = 0u64;
        for m in ms {
            n += self.make(m).perft(depth - 1);
        }
        n
    }

    /// moves that deliver checkmate
    pub fn mating_moves(&self) -> Vec<Mv> {
        self.legal_moves()
            .into_iter()
            .filter(|&m| {
                let n = self.make(m);
                n.in_check() && n.legal_moves().is_empty()
            })
            .collect()
    }
}

#[derive(Clone, PartialEq, Eq, Hash, PartialOrd, Ord, Debug)]
pub struct PosKey {
    pub sq: [u8; 64],
    pub stm: u8,
    pub cr: [bool; 4],
    pub ep: Option<u8>,
}

pub fn mirror_mv(m: Mv) -> Mv {
    Mv::new(sq(file_of(m.from), 7 - rank_of(m.from)), sq(file_of(m.to), 7 - rank_of(m.to)), m.promo)
}

/// perft self-test of the model against the published node counts
pub fn self_test(deep: bool) -> Result<u64, String> {
    let suite: &[(&str, &[u64])] = &[
        ("rnbqkbnr/pppppppp/8/8/8/8/PPPPPPPP/RNBQKBNR w KQkq - 0 1", &[20, 400, 8902, 197281, 4865609]),
        ("r3k2r/p1ppqpb1/bn2pnp1/3PN3/1p2P3/2N2Q1p/PPPBBPPP/R3K2R w KQkq - 0 1", &[48, 2039, 97862, 4085603]),
        ("8/2p5/3p4/KP5r/1R3p1k/8/4P1P1/8 w - - 0 1", &[14, 191, 2812, 43238, 674624]),
        ("r3k2r/Pppp1ppp/1b3nbN/nP6/BBP1P3/q4N2/Pp1P2PP/R2Q1RK1 w kq - 0 1", &[6, 264, 9467, 422333]),
        ("rnbq1k1r/pp1Pbppp/2p5/8/2B5/8/PPP1NnPP/RNBQK2R w KQ - 1 8", &[44, 1486, 62379, 2103487]),
        ("r4rk1/1pp1qppp/p1np1n2/2b1p1B1/2B1P1b1/P1NP1N2/1PP1QPPP/R4RK1 w - - 0 10", &[46, 2079, 89890, 3894594]),
        // en-passant corner cases (rank discovery, pinned capturer) and promotion corner cases
        ("8/8/8/K2Pp2r/8/8/8/7k w - e6 0 1", &[6]),
        ("4r2k/8/8/3Pp3/8/8/8/4K3 w - e6 0 1", &[7]),
        ("6bk/8/8/3Pp3/2K5/8/8/8 w - e6 0 1", &[7]),
        ("n1n5/PPPk4/8/8/8/8/4Kppp/5N1N b - - 0 1", &[24, 496, 9483, 182838]),
    ];
    let mut nodes = 0u64;
    for (fen, counts) in suite {
        let p = Pos1::from_fen(fen).ok_or_else(|| format!("model cannot read {fen}"))?;
        if p.fen() != *fen {
            return Err(format!("model FEN round trip differs: {fen} -> {}", p.fen()));
        }
        for (i, &want) in counts.iter().enumerate() {
            let d = i as u32 + 1;
            if !deep && want > 500_000 {
                continue;
            }
            let got = p.perft(d);
            nodes += got;
            if got != want {
                return Err(format!("model perft({d}) of {fen} = {got}, expected {want}"));
            }
        }
    }
    Ok(nodes)
}
