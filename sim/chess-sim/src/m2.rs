//! M2 — shakmaty 0.26 as a second, independent rules oracle.

use crate::refmodel::{self as m1, Mv, Pos1};
use shakmaty::{fen::Fen, CastlingMode, Chess, Move, Position, Role};

fn position(p: &Pos1) -> Option<Chess> {
    let mut q = p.clone();
    if q.fmn == 0 {
        q.fmn = 1;
    }
    let fen = Fen::from_ascii(q.fen().as_bytes()).ok()?;
    match fen.into_position::<Chess>(CastlingMode::Standard) {
        Ok(c) => Some(c),
        Err(e) => e.ignore_too_much_material().or_else(|e| e.ignore_impossible_check()).ok(),
    }
}

fn conv(m: &Move) -> Option<Mv> {
    match *m {
        Move::Normal { from, to, promotion, .. } => {
            let promo = match promotion {
                None => 0,
                Some(Role::Knight) => m1::N,
                Some(Role::Bishop) => m1::B,
                Some(Role::Rook) => m1::R,
                Some(Role::Queen) => m1::Q,
                Some(_) => return None,
            };
            Some(Mv::new(from as u8, to as u8, promo))
        }
        Move::EnPassant { from, to } => Some(Mv::new(from as u8, to as u8, 0)),
        Move::Castle { king, rook } => {
            let k = king as u8;
            let to = if (rook as u8) > k { k + 2 } else { k - 2 };
            Some(Mv::new(k, to, 0))
        }
        Move::Put { .. } => None,
    }
}

/// sorted legal moves according to shakmaty, or None if it cannot represent the position
pub fn legal_moves(p: &Pos1) -> Option<Vec<Mv>> {
    let c = position(p)?;
    let mut out = Vec::new();
    for m in c.legal_moves().iter() {
        out.push(conv(m)?);
    }
    out.sort();
    Some(out)
}

/// placement + side after playing `mv` according to shakmaty
pub fn successor_placement(p: &Pos1, mv: Mv) -> Option<([u8; 64], u8)> {
    let c = position(p)?;
    let lm = c.legal_moves();
    let m = lm.iter().find(|m| conv(m) == Some(mv))?;
    let n = c.play(m).ok()?;
    let mut out = [0u8; 64];
    for s in 0..64u32 {
        let sq = shakmaty::Square::new(s);
        if let Some(pc) = n.board().piece_at(sq) {
            let kind = match pc.role {
                Role::Pawn => m1::P,
                Role::Knight => m1::N,
                Role::Bishop => m1::B,
                Role::Rook => m1::R,
                Role::Queen => m1::Q,
                Role::King => m1::K,
            };
            let color = if pc.color == shakmaty::Color::White { m1::WHITE } else { m1::BLACK };
            out[s as usize] = m1::pc(color, kind);
        }
    }
    let stm = if n.turn() == shakmaty::Color::White { m1::WHITE } else { m1::BLACK };
    Some((out, stm))
}

pub fn is_check(p: &Pos1) -> Option<bool> {
    Some(position(p)?.is_check())
}
