//! Seam between `tracing-enabled` and the thread simulator.
//!
//! `atomic::AtomicBool` has the API of std's but yields to the baton scheduler
//! before every access.  The baton releases real OS threads one at a time: who
//! runs next is decided by the simulator, never by the OS.

pub mod atomic {
    pub use std::sync::atomic::Ordering;

    pub struct AtomicBool(std::sync::atomic::AtomicBool);

    impl AtomicBool {
        pub const fn new(v: bool) -> Self {
            AtomicBool(std::sync::atomic::AtomicBool::new(v))
        }
        pub fn load(&self, o: Ordering) -> bool {
            crate::baton::yield_point(crate::baton::Site::AtomicLoad);
            self.0.load(o)
        }
        pub fn store(&self, v: bool, o: Ordering) {
            crate::baton::yield_point(crate::baton::Site::AtomicStore);
            self.0.store(v, o)
        }
        pub fn fetch_xor(&self, v: bool, o: Ordering) -> bool {
            crate::baton::yield_point(crate::baton::Site::AtomicRmw);
            self.0.fetch_xor(v, o)
        }
        pub fn fetch_or(&self, v: bool, o: Ordering) -> bool {
            crate::baton::yield_point(crate::baton::Site::AtomicRmw);
            self.0.fetch_or(v, o)
        }
        pub fn fetch_and(&self, v: bool, o: Ordering) -> bool {
            crate::baton::yield_point(crate::baton::Site::AtomicRmw);
            self.0.fetch_and(v, o)
        }
        pub fn swap(&self, v: bool, o: Ordering) -> bool {
            crate::baton::yield_point(crate::baton::Site::AtomicRmw);
            self.0.swap(v, o)
        }
        pub fn compare_exchange(&self, c: bool, n: bool, s: Ordering, f: Ordering) -> Result<bool, bool> {
            crate::baton::yield_point(crate::baton::Site::AtomicRmw);
            self.0.compare_exchange(c, n, s, f)
        }
        pub fn compare_exchange_weak(&self, c: bool, n: bool, s: Ordering, f: Ordering) -> Result<bool, bool> {
            crate::baton::yield_point(crate::baton::Site::AtomicRmw);
            self.0.compare_exchange(c, n, s, f)
        }
    }
}

pub mod baton {
    use std::cell::RefCell;
    use std::sync::{Arc, Condvar, Mutex};

    #[derive(Clone, Copy, PartialEq, Eq, Debug)]
    pub enum Site {
        BeforeOp,
        AfterOp,
        AtomicLoad,
        AtomicStore,
        AtomicRmw,
    }

    pub const COORD: usize = usize::MAX;

    pub struct State {
        /// who holds the baton: a thread id, or COORD
        pub current: usize,
        pub finished: Vec<bool>,
        /// the site at which each thread is parked
        pub parked_at: Vec<Option<Site>>,
        /// every (thread, site) pair in the order the baton was handed out
        pub schedule: Vec<(usize, Site)>,
        /// yield at atomic accesses too (hook granularity), or only at operation boundaries
        pub fine: bool,
    }

    pub struct Baton {
        pub state: Mutex<State>,
        pub cv: Condvar,
    }

    thread_local! {
        static ME: RefCell<Option<(Arc<Baton>, usize)>> = const { RefCell::new(None) };
    }

    impl Baton {
        pub fn new(threads: usize, fine: bool) -> Arc<Baton> {
            Arc::new(Baton {
                state: Mutex::new(State { current: COORD, finished: vec![false; threads], parked_at: vec![None; threads], schedule: Vec::new(), fine }),
                cv: Condvar::new(),
            })
        }

        /// called by a simulated thread at its start: park until first scheduled
        pub fn enter(self: &Arc<Self>, tid: usize) {
            ME.with(|m| *m.borrow_mut() = Some((self.clone(), tid)));
            let mut st = self.state.lock().unwrap();
            st.parked_at[tid] = Some(Site::BeforeOp);
            self.cv.notify_all();
            while st.current != tid {
                st = self.cv.wait(st).unwrap();
            }
            st.parked_at[tid] = None;
        }

        /// called by a simulated thread when it is done
        pub fn leave(self: &Arc<Self>, tid: usize) {
            ME.with(|m| *m.borrow_mut() = None);
            let mut st = self.state.lock().unwrap();
            st.finished[tid] = true;
            st.current = COORD;
            self.cv.notify_all();
        }

        /// coordinator: wait until the baton is back
        pub fn wait_coord(&self) {
            let mut st = self.state.lock().unwrap();
            while st.current != COORD {
                st = self.cv.wait(st).unwrap();
            }
        }

        /// coordinator: wait until all threads have parked at their entry point
        pub fn wait_all_parked(&self) {
            let mut st = self.state.lock().unwrap();
            while !st.parked_at.iter().zip(st.finished.iter()).all(|(p, f)| p.is_some() || *f) {
                st = self.cv.wait(st).unwrap();
            }
        }

        /// coordinator: threads that can be scheduled
        pub fn runnable(&self) -> Vec<usize> {
            let st = self.state.lock().unwrap();
            (0..st.finished.len()).filter(|&t| !st.finished[t]).collect()
        }

        /// coordinator: hand the baton to `tid` and wait until it comes back
        pub fn step(&self, tid: usize) {
            {
                let mut st = self.state.lock().unwrap();
                let site = st.parked_at[tid].unwrap_or(Site::BeforeOp);
                st.schedule.push((tid, site));
                st.current = tid;
                self.cv.notify_all();
            }
            self.wait_coord();
        }
    }

    /// a simulated thread offers the baton back to the coordinator
    pub fn yield_point(site: Site) {
        let me = ME.with(|m| m.borrow().clone());
        let Some((b, tid)) = me else { return };
        let mut st = b.state.lock().unwrap();
        if !st.fine && matches!(site, Site::AtomicLoad | Site::AtomicStore | Site::AtomicRmw) {
            return;
        }
        st.parked_at[tid] = Some(site);
        st.current = COORD;
        b.cv.notify_all();
        while st.current != tid {
            st = b.cv.wait(st).unwrap();
        }
        st.parked_at[tid] = None;
    }
}
