//! S-THREADS — the real `tracing_enabled` functions called from 2-3 real OS
//! threads under a baton scheduler (C20).  See /verif/DESIGN.md, section C20.
//!
//! Every run is a pure function of its tape: the tape decides the workload of
//! each thread and, at every yield point, which thread runs next.  Yield
//! points are the boundaries of every API call and (through the cfg-guarded
//! hook in /repo/tracing-enabled) every access to the global atomic.

#![allow(dead_code)]

mod tape;

use serde_json::{json, Value};
use std::collections::{BTreeMap, HashSet};
use std::io::{BufRead, BufReader, Write};
use std::process::{Command, Stdio};
use std::sync::atomic::{AtomicU64, Ordering};
use std::sync::{Arc, Mutex};
use tape::Tape;
use verif_seam::baton::{self, Baton, Site};

const DEFAULT_SEED: u64 = 20261003;

#[derive(Clone, Copy, PartialEq, Eq, Debug)]
enum OpKind {
    Enable,
    Disable,
    Toggle,
    LocalEnable,
    LocalDisable,
    LocalToggle,
    Take,
    Restore(usize),
    IsEnabled,
    /// take and let the token go out of scope at once
    TakeDiscard,
    /// let an earlier token go out of scope without restoring it
    DropToken(usize),
    /// emit a tracing event at one of two call sites through the process-wide subscriber
    /// stack (counting layer under `GlobalEnable`, as chess-cli installs it); the result is
    /// whether the event was delivered - the thread's view as the logging layer consumes it
    Emit(usize),
    /// an event handed to the dispatcher directly (`tracing::Event::dispatch`, what bridges
    /// that build events themselves do): it skips the `enabled()` pre-check the macros make
    EmitDirect,
    /// something that asks the layer's pre-check without completing an event: a span is
    /// created and dropped, or `tracing::enabled!` is evaluated
    Span,
    Probe,
    /// tracing re-evaluates every call site's cached interest (it does so whenever a
    /// subscriber is created or dropped anywhere in the process); here the calling thread
    /// triggers it
    Rebuild,
}

#[derive(Clone, Debug)]
struct Event {
    tid: usize,
    idx: usize,
    op: OpKind,
    inv: u64,
    ret: u64,
    /// result of is_enabled; for Restore: the index of the token actually restored (usize::MAX = none held)
    res: Option<bool>,
    token: usize,
    /// the operation panicked (it did not deliver whatever it promises)
    panicked: bool,
}

fn op_name(o: OpKind) -> String {
    match o {
        OpKind::Enable => "enable".into(),
        OpKind::Disable => "disable".into(),
        OpKind::Toggle => "toggle".into(),
        OpKind::LocalEnable => "local_enable".into(),
        OpKind::LocalDisable => "local_disable".into(),
        OpKind::LocalToggle => "local_toggle".into(),
        OpKind::Take => "take".into(),
        OpKind::Restore(i) => format!("restore#{i}"),
        OpKind::TakeDiscard => "take_discard".into(),
        OpKind::DropToken(i) => format!("drop_token#{i}"),
        OpKind::IsEnabled => "is_enabled".into(),
        OpKind::Emit(i) => format!("emit@{i}"),
        OpKind::EmitDirect => "emit_direct".into(),
        OpKind::Span => "span".into(),
        OpKind::Probe => "probe_enabled".into(),
        OpKind::Rebuild => "rebuild_interest".into(),
    }
}

// ------------------------------------------------------------------ the logging stack

thread_local! {
    /// subscriber shape of the run in progress (for the history text only)
    static SHAPE: std::cell::Cell<u32> = const { std::cell::Cell::new(0) };
    /// events that reached the counting layer on this thread
    static DELIVERED: std::cell::Cell<u64> = const { std::cell::Cell::new(0) };
}

struct CountLayer;
impl<S: tracing::Subscriber> tracing_subscriber::Layer<S> for CountLayer {
    fn on_event(&self, _e: &tracing::Event<'_>, _c: tracing_subscriber::layer::Context<'_, S>) {
        DELIVERED.with(|c| c.set(c.get() + 1));
    }
}

/// one event at call site `site`; true if it was delivered
fn emit(site: usize) -> bool {
    let before = DELIVERED.with(|c| c.get());
    if site == 0 {
        tracing::info!("site 0");
    } else {
        tracing::warn!("site 1");
    }
    DELIVERED.with(|c| c.get()) != before
}

static DIRECT_CS: tracing::callsite::DefaultCallsite = tracing::callsite::DefaultCallsite::new(&DIRECT_META);
static DIRECT_META: tracing::Metadata<'static> = tracing::metadata! {
    name: "direct",
    target: "direct",
    level: tracing::Level::INFO,
    fields: &["message"],
    callsite: &DIRECT_CS,
    kind: tracing::metadata::Kind::EVENT
};

/// one event dispatched without the macros' pre-check; true if it was delivered
fn emit_direct() -> bool {
    let before = DELIVERED.with(|c| c.get());
    let fields = DIRECT_META.fields();
    let message = fields.field("message").unwrap();
    let values = [(&message, Some(&"direct" as &dyn tracing::Value))];
    tracing::Event::dispatch(&DIRECT_META, &fields.value_set(&values));
    DELIVERED.with(|c| c.get()) != before
}

/// the subscriber stack of one run.  Shape 0 is what chess-cli installs (`GlobalEnable` as
/// the outermost layer); in shape 1 the layer and the output sit together below a per-layer
/// level filter - the composition one writes to make one output switchable and level-limited.
/// The dispatcher is created (and dropped) by the coordinating thread at run boundaries, so
/// tracing's automatic re-evaluation of call-site interest happens at a fixed point of the run.
fn make_dispatch(shape: u32) -> tracing::Dispatch {
    use tracing_subscriber::layer::SubscriberExt;
    use tracing_subscriber::Layer;
    match shape {
        0 => tracing::Dispatch::new(tracing_subscriber::registry().with(CountLayer).with(tracing_enabled::GlobalEnable)),
        _ => tracing::Dispatch::new(tracing_subscriber::registry().with(tracing_enabled::GlobalEnable.and_then(CountLayer).with_filter(tracing_subscriber::filter::LevelFilter::TRACE))),
    }
}

fn thread_body(b: Arc<Baton>, tid: usize, ops: Vec<OpKind>, log: Arc<Mutex<Vec<Event>>>, clock: Arc<AtomicU64>, dispatch: tracing::Dispatch) {
    let _scoped = tracing::dispatcher::set_default(&dispatch);
    b.enter(tid);
    let mut tokens: Vec<Option<tracing_enabled::LocalEnableState>> = Vec::new();
    for (idx, op) in ops.iter().enumerate() {
        let inv = clock.fetch_add(1, Ordering::SeqCst);
        let mut res = None;
        let mut token = usize::MAX;
        let outcome = std::panic::catch_unwind(std::panic::AssertUnwindSafe(|| match *op {
            OpKind::Enable => tracing_enabled::enable(),
            OpKind::Disable => tracing_enabled::disable(),
            OpKind::Toggle => tracing_enabled::toggle(),
            OpKind::LocalEnable => tracing_enabled::local_enable(),
            OpKind::LocalDisable => tracing_enabled::local_disable(),
            OpKind::LocalToggle => tracing_enabled::local_toggle(),
            OpKind::Take => {
                tokens.push(Some(tracing_enabled::local_take()));
                token = tokens.len() - 1;
            }
            OpKind::Restore(want) => {
                let held: Vec<usize> = (0..tokens.len()).filter(|&i| tokens[i].is_some()).collect();
                if !held.is_empty() {
                    let i = held[want % held.len()];
                    token = i;
                    tracing_enabled::restore(tokens[i].take().unwrap());
                }
            }
            OpKind::IsEnabled => res = Some(tracing_enabled::is_enabled()),
            OpKind::TakeDiscard => {
                let _ = tracing_enabled::local_take();
            }
            OpKind::DropToken(want) => {
                let held: Vec<usize> = (0..tokens.len()).filter(|&i| tokens[i].is_some()).collect();
                if !held.is_empty() {
                    let i = held[want % held.len()];
                    token = i;
                    drop(tokens[i].take());
                }
            }
            OpKind::Emit(site) => res = Some(emit(site)),
            OpKind::EmitDirect => res = Some(emit_direct()),
            OpKind::Span => {
                let s = tracing::info_span!("verif_span");
                let _g = s.enter();
            }
            OpKind::Probe => {
                let _ = tracing::enabled!(tracing::Level::INFO);
            }
            OpKind::Rebuild => tracing::callsite::rebuild_interest_cache(),
        }));
        let ret = clock.fetch_add(1, Ordering::SeqCst);
        log.lock().unwrap().push(Event { tid, idx, op: *op, inv, ret, res, token, panicked: outcome.is_err() });
        baton::yield_point(Site::AfterOp);
    }
    b.leave(tid);
}

/// read the global setting from a fresh thread (fresh thread-local, no override)
fn fresh_read() -> bool {
    std::thread::spawn(tracing_enabled::is_enabled).join().unwrap()
}

struct RunOut {
    events: Vec<Event>,
    initial: bool,
    final_read: bool,
    schedule: Vec<(usize, Site)>,
    verdict: Option<(String, String, String)>, // class, features, detail
    tape: Vec<u32>,
    overlap: bool,
    fine: bool,
}

fn run(mut t: Tape) -> RunOut {
    let nthreads = 2 + (t.choose(3) == 2) as usize;
    let fine = t.choose(4) != 0; // hook granularity in three quarters of the runs
    let mut plans: Vec<Vec<OpKind>> = Vec::new();
    for _ in 0..nthreads {
        let n = t.range(1, 10);
        let mut ops = Vec::new();
        for _ in 0..n {
            let o = match t.choose(15) {
                12 | 13 => OpKind::Emit(t.choose(2) as usize),
                14 => *t.pick(&[OpKind::Rebuild, OpKind::EmitDirect, OpKind::EmitDirect, OpKind::Span, OpKind::Probe]),
                0 | 1 | 2 => OpKind::IsEnabled,
                3 => OpKind::Enable,
                4 => OpKind::Disable,
                5 | 6 => OpKind::Toggle,
                7 => OpKind::LocalEnable,
                8 => OpKind::LocalDisable,
                9 => OpKind::LocalToggle,
                10 => *t.pick(&[OpKind::Take, OpKind::Take, OpKind::Take, OpKind::TakeDiscard]),
                _ => {
                    let i = t.choose(4) as usize;
                    if t.choose(5) == 4 {
                        OpKind::DropToken(i)
                    } else {
                        OpKind::Restore(i)
                    }
                }
            };
            ops.push(o);
        }
        plans.push(ops);
    }
    // initial global value: drawn, set from a helper thread (its own override dies with it)
    let want_initial = t.choose(2) == 1;
    std::thread::spawn(move || if want_initial { tracing_enabled::enable() } else { tracing_enabled::disable() }).join().unwrap();
    let initial = fresh_read();
    // the call sites' cached interest as tracing computes it at this point (this thread never
    // holds an override): each run starts from the same logging state
    let shape: u32 = (t.choose(3) == 2) as u32;
    SHAPE.with(|c| c.set(shape));
    let dispatch = make_dispatch(shape);
    {
        // every call site is registered (first use) before the threads start
        let _scoped = tracing::dispatcher::set_default(&dispatch);
        let _ = emit(0);
        let _ = emit(1);
        let _ = emit_direct();
        tracing::callsite::rebuild_interest_cache();
    }

    let b = Baton::new(nthreads, fine);
    let log = Arc::new(Mutex::new(Vec::new()));
    let clock = Arc::new(AtomicU64::new(1));
    let mut handles = Vec::new();
    for (tid, ops) in plans.iter().enumerate() {
        let (b2, l2, c2, ops2, d2) = (b.clone(), log.clone(), clock.clone(), ops.clone(), dispatch.clone());
        handles.push(std::thread::spawn(move || thread_body(b2, tid, ops2, l2, c2, d2)));
    }
    b.wait_all_parked();
    let mut steps = 0u32;
    let mut livelock = false;
    loop {
        let r = b.runnable();
        if r.is_empty() {
            break;
        }
        steps += 1;
        if steps > 20_000 {
            // <= 3 threads x 8 operations x a few atomic accesses: an operation is spinning on
            // the global flag.  The parked threads are abandoned (they hold no CPU).
            livelock = true;
            break;
        }
        let pick = r[t.choose(r.len() as u32) as usize];
        b.step(pick);
    }
    if livelock {
        let events = log.lock().unwrap().clone();
        let schedule = b.state.lock().unwrap().schedule.clone();
        return RunOut { events, initial, final_read: initial, schedule, verdict: Some(("tracing.hang".into(), "kind=spins-at-yield-points".into(), "an operation kept accessing the global flag for more than 20000 scheduling steps without returning".into())), tape: t.consumed(), overlap: false, fine };
    }
    for h in handles {
        let _ = h.join();
    }
    let final_read = fresh_read();
    let events = log.lock().unwrap().clone();
    let schedule = b.state.lock().unwrap().schedule.clone();
    let overlap = events.iter().any(|a| events.iter().any(|c| c.tid != a.tid && a.inv < c.inv && c.inv < a.ret));
    let verdict = judge(&events, nthreads, initial, final_read);
    RunOut { events, initial, final_read, schedule, verdict, tape: t.consumed(), overlap, fine }
}

// ------------------------------------------------------------------ oracle

#[derive(Clone, Copy, PartialEq, Eq, Debug)]
enum L {
    Inherit,
    On,
    Off,
}

#[derive(Clone, Copy, Debug)]
enum G {
    Write(bool),
    Flip,
    Read(bool),
}

#[derive(Clone, Copy)]
struct Variant {
    /// enable()/disable() also set the caller's own override
    global_sets_local: bool,
    /// toggle() also toggles the caller's own override (as local_toggle does)
    toggle_toggles_local: bool,
    /// take() resets the caller's override to "inherit"
    take_resets: bool,
    /// what local_toggle does to "inherit": 0 leaves it, 1 -> On, 2 -> Off
    toggle_inherit: u8,
}

fn variants() -> Vec<Variant> {
    let mut v = Vec::new();
    // `take` is not a variant: the statement calls it saving, the API calls it taking, and a
    // take that left the override in place would make save-and-restore a no-op pair - the
    // sentence about it would have no content.  So taking removes the override.
    for a in [true, false] {
        for b in [true, false] {
            for d in 0..3u8 {
                v.push(Variant { global_sets_local: a, toggle_toggles_local: b, take_resets: true, toggle_inherit: d });
            }
        }
    }
    v
}

fn local_toggle(l: L, v: &Variant) -> L {
    match l {
        L::On => L::Off,
        L::Off => L::On,
        L::Inherit => match v.toggle_inherit {
            0 => L::Inherit,
            1 => L::On,
            _ => L::Off,
        },
    }
}

struct GOp {
    inv: u64,
    ret: u64,
    g: G,
    what: String,
}

/// per-thread pass: follow the thread's own override along its program order.
/// Returns the global operations, or Err on a local read that no override explains.
fn thread_pass(events: &[Event], tid: usize, v: &Variant) -> Result<Vec<GOp>, String> {
    let mut l = L::Inherit;
    let mut tokens: BTreeMap<usize, L> = BTreeMap::new();
    let mut out = Vec::new();
    let mut mine: Vec<&Event> = events.iter().filter(|e| e.tid == tid).collect();
    mine.sort_by_key(|e| e.idx);
    for e in mine {
        let what = format!("T{}#{} {}", tid, e.idx, op_name(e.op));
        match e.op {
            OpKind::Enable => {
                if v.global_sets_local {
                    l = L::On;
                }
                out.push(GOp { inv: e.inv, ret: e.ret, g: G::Write(true), what });
            }
            OpKind::Disable => {
                if v.global_sets_local {
                    l = L::Off;
                }
                out.push(GOp { inv: e.inv, ret: e.ret, g: G::Write(false), what });
            }
            OpKind::Toggle => {
                if v.toggle_toggles_local {
                    l = local_toggle(l, v);
                }
                out.push(GOp { inv: e.inv, ret: e.ret, g: G::Flip, what });
            }
            OpKind::LocalEnable => l = L::On,
            OpKind::LocalDisable => l = L::Off,
            OpKind::LocalToggle => l = local_toggle(l, v),
            OpKind::Take => {
                tokens.insert(e.token, l);
                if v.take_resets {
                    l = L::Inherit;
                }
            }
            OpKind::Restore(_) => {
                if e.token != usize::MAX {
                    if let Some(saved) = tokens.remove(&e.token) {
                        l = saved;
                    }
                }
            }
            OpKind::TakeDiscard => {
                // nothing is kept, so nothing can come back later
                if v.take_resets {
                    l = L::Inherit;
                }
            }
            OpKind::DropToken(_) => {
                // a saved state that goes out of scope is gone; the override does not change
                if e.token != usize::MAX {
                    tokens.remove(&e.token);
                }
            }
            // re-evaluating cached interests, creating a span and asking whether a level is
            // enabled change nobody's view
            OpKind::Rebuild | OpKind::Span | OpKind::Probe => {}
            // an event is delivered exactly when the emitting thread's view says "enabled"
            OpKind::IsEnabled | OpKind::Emit(_) | OpKind::EmitDirect => {
                let got = e.res.unwrap_or(false);
                match l {
                    L::On | L::Off => {
                        if got != (l == L::On) {
                            if matches!(e.op, OpKind::Emit(_) | OpKind::EmitDirect) {
                                return Err(format!("via=layer|{what}: event {} although the thread's own override is {l:?}", if got { "delivered" } else { "dropped" }));
                            }
                            return Err(format!("{what} returned {got} although the thread's own override is {l:?}"));
                        }
                    }
                    L::Inherit => out.push(GOp { inv: e.inv, ret: e.ret, g: G::Read(got), what: format!("{what}={got}") }),
                }
            }
        }
    }
    Ok(out)
}

/// is there a linearization of the global operations (boolean register with
/// write / flip / read) that respects real-time order?
fn linearizable(ops: &[GOp], initial: bool) -> bool {
    let n = ops.len();
    if n > 30 {
        return true; // bounded by construction (<= 3 threads x 8 ops + final read)
    }
    // pred[i] = mask of ops that must come before i
    let mut pred = vec![0u32; n];
    for i in 0..n {
        for j in 0..n {
            if i != j && ops[j].ret < ops[i].inv {
                pred[i] |= 1 << j;
            }
        }
    }
    let full: u32 = if n == 32 { u32::MAX } else { (1u32 << n) - 1 };
    let mut seen: HashSet<(u32, bool)> = HashSet::new();
    let mut stack = vec![(0u32, initial)];
    while let Some((done, g)) = stack.pop() {
        if done == full {
            return true;
        }
        if !seen.insert((done, g)) {
            continue;
        }
        for i in 0..n {
            if done >> i & 1 == 1 || pred[i] & !done != 0 {
                continue;
            }
            let ng = match ops[i].g {
                G::Write(b) => b,
                G::Flip => !g,
                G::Read(b) => {
                    if b != g {
                        continue;
                    }
                    g
                }
            };
            stack.push((done | 1 << i, ng));
        }
    }
    false
}

fn judge(events: &[Event], nthreads: usize, initial: bool, final_read: bool) -> Option<(String, String, String)> {
    if let Some(e) = events.iter().find(|e| e.panicked) {
        return Some(("tracing.trap".into(), format!("op={}", op_name(e.op).split('#').next().unwrap_or("")), format!("T{}#{} {} panicked", e.tid, e.idx, op_name(e.op))));
    }
    let last = events.iter().map(|e| e.ret).max().unwrap_or(0);
    let mut first_reason: Option<(String, String)> = None;
    for (vi, v) in variants().iter().enumerate() {
        let mut all: Vec<GOp> = Vec::new();
        let mut failed: Option<(String, String)> = None;
        for tid in 0..nthreads {
            match thread_pass(events, tid, v) {
                Ok(mut g) => all.append(&mut g),
                Err(e) => {
                    failed = Some(match e.strip_prefix("via=layer|") {
                        Some(rest) => ("kind=own-override-not-honoured;via=layer".into(), rest.to_string()),
                        None => ("kind=own-override-not-honoured".into(), e),
                    });
                    break;
                }
            }
        }
        if failed.is_none() {
            // the quiescent read after all threads joined pins the final value
            all.push(GOp { inv: last + 1, ret: last + 2, g: G::Read(final_read), what: format!("final={final_read}") });
            if linearizable(&all, initial) {
                return None;
            }
            let via = if events.iter().any(|e| matches!(e.op, OpKind::Emit(_) | OpKind::EmitDirect)) { ";with-events=1" } else { "" };
            failed = Some((format!("kind=global-history-not-linearizable{via}"), format!("no linearization of [{}] from initial={initial}", all.iter().map(|o| o.what.clone()).collect::<Vec<_>>().join(", "))));
        }
        if vi == 0 {
            first_reason = failed; // the variant that describes today's code
        }
    }
    let (f, d) = first_reason.unwrap_or_default();
    Some(("tracing.not-linearizable".into(), f, d))
}

fn history_text(o: &RunOut) -> String {
    let mut ev = o.events.clone();
    ev.sort_by_key(|e| e.inv);
    let h: Vec<String> = ev.iter().map(|e| format!("[{}..{}] T{} {}{}", e.inv, e.ret, e.tid, op_name(e.op), e.res.map(|r| format!("={r}")).unwrap_or_default())).collect();
    format!("initial={} {} final={} (hook granularity: {}; subscriber shape {})", o.initial, h.join(" "), o.final_read, o.fine, SHAPE.with(|c| c.get()))
}

fn schedule_hash(o: &RunOut) -> u64 {
    let mut h = tape::FNV0;
    for (t, s) in &o.schedule {
        tape::fnv(&mut h, &[*t as u8, *s as u8]);
    }
    for e in &o.events {
        tape::fnv(&mut h, &[e.tid as u8, e.idx as u8]);
        tape::fnv(&mut h, op_name(e.op).as_bytes());
    }
    h
}

// ------------------------------------------------------------------ driver

fn mix(seed: u64) -> u64 {
    seed ^ 0xC20C_20C2_0C20_C20C
}

static RUN_STARTED_MS: AtomicU64 = AtomicU64::new(0);
static RUN_INDEX: AtomicU64 = AtomicU64::new(0);

fn now_ms() -> u64 {
    static T0: std::sync::OnceLock<std::time::Instant> = std::sync::OnceLock::new();
    T0.get_or_init(std::time::Instant::now).elapsed().as_millis() as u64 + 1
}

/// a run whose threads never hand the baton back (an operation that spins or blocks) would
/// hang the check: report it as a violation with the choices made so far and end the worker
fn start_watchdog() {
    let limit: u64 = std::env::var("VERIF_RUN_TIMEOUT_S").ok().and_then(|s| s.parse::<u64>().ok()).unwrap_or(60) * 1000;
    let _ = now_ms();
    std::thread::spawn(move || loop {
        std::thread::sleep(std::time::Duration::from_millis(250));
        let st = RUN_STARTED_MS.load(Ordering::Relaxed);
        if st != 0 && now_ms().saturating_sub(st) > limit {
            let run = RUN_INDEX.load(Ordering::Relaxed);
            let mut out = std::io::stdout().lock();
            let _ = writeln!(out, "V {}", json!({"run": run, "class": "tracing.hang", "features": "", "detail": format!("the simulated threads did not finish within {} s: an operation spins or blocks", limit / 1000), "tape": tape::mirror_snapshot()}));
            let _ = writeln!(out, "E {}", json!({"runs": 0, "overlaps": 0, "fine_runs": 0, "yields": 0, "ops": 0, "samples": [], "distinct": [], "distinct_nt": [], "sites": {}, "hung": true}));
            let _ = out.flush();
            std::process::exit(0);
        }
    });
}

fn worker(seed: u64, start: u64, stride: u64, end: u64) -> i32 {
    start_watchdog();
    // panics inside operations are caught and judged; keep the default hook quiet
    std::panic::set_hook(Box::new(|_| {}));
    let mut i = start;
    let mut runs = 0u64;
    let mut overlaps = 0u64;
    let mut fine_runs = 0u64;
    let mut yields = 0u64;
    let mut ops = 0u64;
    let mut distinct: HashSet<u64> = HashSet::new();
    let mut distinct_nt: HashSet<u64> = HashSet::new();
    let mut samples: Vec<String> = Vec::new();
    let mut site_counts: BTreeMap<String, u64> = BTreeMap::new();
    let out = std::io::stdout();
    while i < end {
        RUN_INDEX.store(i, Ordering::Relaxed);
        RUN_STARTED_MS.store(now_ms(), Ordering::Relaxed);
        let o = run(Tape::record(mix(seed), i));
        RUN_STARTED_MS.store(0, Ordering::Relaxed);
        runs += 1;
        ops += o.events.len() as u64;
        yields += o.schedule.len() as u64;
        for (_, s) in &o.schedule {
            *site_counts.entry(format!("{s:?}")).or_insert(0) += 1;
        }
        for e in &o.events {
            let name = op_name(e.op);
            let kind = name.split(['#', '@']).next().unwrap_or("").to_string();
            *site_counts.entry(format!("op.{kind}")).or_insert(0) += 1;
        }
        *site_counts.entry(format!("shape.{}", SHAPE.with(|c| c.get()))).or_insert(0) += 1;
        if o.fine {
            fine_runs += 1;
        }
        let h = schedule_hash(&o);
        distinct.insert(h);
        if o.overlap {
            overlaps += 1;
            distinct_nt.insert(h);
        }
        if samples.len() < 3 && o.overlap {
            samples.push(history_text(&o));
        }
        if let Some((class, features, detail)) = &o.verdict {
            let mut w = out.lock();
            let _ = writeln!(w, "V {}", json!({"run": i, "class": class, "features": features, "detail": format!("{detail}; history: {}", history_text(&o)), "tape": o.tape}));
        }
        i += stride;
    }
    let d: Vec<String> = distinct.iter().map(|x| format!("{x:x}")).collect();
    let dn: Vec<String> = distinct_nt.iter().map(|x| format!("{x:x}")).collect();
    println!("E {}", json!({"runs": runs, "overlaps": overlaps, "fine_runs": fine_runs, "yields": yields, "ops": ops, "samples": samples, "distinct": d, "distinct_nt": dn, "sites": site_counts}));
    0
}

fn signature(class: &str, features: &str) -> String {
    if features.is_empty() {
        class.to_string()
    } else {
        format!("{class}[{features}]")
    }
}

fn fails_same(tape_vals: &[u32], sig: &str) -> Option<Vec<u32>> {
    let o = run(Tape::replay(tape_vals.to_vec()));
    match o.verdict {
        Some((c, f, _)) if signature(&c, &f) == sig => Some(o.tape),
        _ => None,
    }
}

fn trim(mut t: Vec<u32>) -> Vec<u32> {
    while t.last() == Some(&0) {
        t.pop();
    }
    t
}

fn minimise(t0: &[u32], sig: &str) -> (Vec<u32>, usize) {
    let mut best = trim(t0.to_vec());
    let mut used = 0usize;
    // lower values, then delete entries, until no progress (bounded)
    let mut progress = true;
    while progress && used < 3000 {
        progress = false;
        let mut i = 0;
        while i < best.len() && used < 3000 {
            if best[i] != 0 {
                for nv in [0u32, best[i] / 2, best[i] - 1] {
                    if nv >= best[i] {
                        continue;
                    }
                    let mut c = best.clone();
                    c[i] = nv;
                    used += 1;
                    if let Some(t) = fails_same(&c, sig) {
                        let t = trim(t);
                        if t.len() <= best.len() {
                            best = t;
                            progress = true;
                            break;
                        }
                    }
                }
            }
            i += 1;
        }
        let mut i = best.len();
        while i > 0 && used < 3000 {
            i -= 1;
            let mut c = best.clone();
            c.remove(i);
            used += 1;
            if let Some(t) = fails_same(&c, sig) {
                let t = trim(t);
                if t.len() < best.len() {
                    best = t;
                    progress = true;
                    if i > best.len() {
                        i = best.len();
                    }
                }
            }
        }
    }
    (best, used)
}

fn verif_dir() -> std::path::PathBuf {
    std::env::var("VERIF_DIR").map(std::path::PathBuf::from).unwrap_or_else(|_| "/verif".into())
}

fn check(tier: &str, seed: u64) -> i32 {
    let t0 = std::time::Instant::now();
    if let Some(view) = token_carried_to_another_thread() {
        if !view {
            let dir = verif_dir().join("replays");
            let _ = std::fs::create_dir_all(&dir);
            let path = dir.join(format!("C20-{seed}-carried-token.json"));
            let j = json!({"property": "C20", "tier": tier, "seed": seed, "run_index": 0, "tape": [], "probe": "carried-token",
                "violation": {"class": "tracing.override-carried-across-threads", "features": "", "signature": "tracing.override-carried-across-threads",
                "detail": "LocalEnableState is Send: thread A saved a Disabled override, thread B restored it and now sees tracing disabled although B never set an override and the global setting is on"}, "sim_version": "threads-sim-1"});
            let _ = std::fs::write(&path, serde_json::to_string_pretty(&j).unwrap_or_default());
            println!("violation tracing.override-carried-across-threads (static probe)");
            println!("  a saved override can be moved to another thread and restored there: the receiving thread's view is then decided by state saved on the sending thread");
            println!("VIOLATION property=C20 replay={}", path.display());
            return 1;
        }
    }
    let total: u64 = std::env::var("VERIF_RUNS").ok().and_then(|s| s.parse().ok()).unwrap_or(200_000) * if tier == "thorough" { 10 } else { 1 };
    let workers: u64 = std::env::var("VERIF_WORKERS").ok().and_then(|s| s.parse().ok()).unwrap_or_else(|| std::thread::available_parallelism().map(|n| n.get() as u64).unwrap_or(4)).max(1);
    let exe = std::env::current_exe().unwrap();
    let mut children = Vec::new();
    for w in 0..workers {
        match Command::new(&exe).arg("worker").arg(seed.to_string()).arg(w.to_string()).arg(workers.to_string()).arg(total.to_string()).stdout(Stdio::piped()).stderr(Stdio::inherit()).spawn() {
            Ok(c) => children.push(c),
            Err(e) => {
                eprintln!("harness error: cannot spawn worker: {e}");
                return 2;
            }
        }
    }
    let mut found: Vec<Value> = Vec::new();
    let mut ends: Vec<Value> = Vec::new();
    let mut harness = 0;
    let handles: Vec<_> = children
        .into_iter()
        .map(|mut c| {
            std::thread::spawn(move || {
                let so = c.stdout.take().unwrap();
                let mut v = Vec::new();
                let mut e = None;
                for line in BufReader::new(so).lines() {
                    let Ok(line) = line else { break };
                    if let Some(r) = line.strip_prefix("V ") {
                        if let Ok(j) = serde_json::from_str::<Value>(r) {
                            v.push(j);
                        }
                    } else if let Some(r) = line.strip_prefix("E ") {
                        e = serde_json::from_str::<Value>(r).ok();
                    }
                }
                let ok = c.wait().map(|s| s.success()).unwrap_or(false);
                (v, e, ok)
            })
        })
        .collect();
    for h in handles {
        match h.join() {
            Ok((v, Some(e), true)) => {
                found.extend(v);
                ends.push(e);
            }
            _ => harness += 1,
        }
    }
    if harness > 0 {
        eprintln!("harness error: {harness} worker(s) of the thread simulator died");
        return 2;
    }
    let sum = |k: &str| ends.iter().map(|e| e[k].as_u64().unwrap_or(0)).sum::<u64>();
    let mut distinct: HashSet<String> = HashSet::new();
    let mut distinct_nt: HashSet<String> = HashSet::new();
    let mut samples: Vec<Value> = Vec::new();
    let mut sites: BTreeMap<String, u64> = BTreeMap::new();
    for e in &ends {
        for x in e["distinct"].as_array().into_iter().flatten() {
            distinct.insert(x.as_str().unwrap_or("").to_string());
        }
        for x in e["distinct_nt"].as_array().into_iter().flatten() {
            distinct_nt.insert(x.as_str().unwrap_or("").to_string());
        }
        for x in e["samples"].as_array().into_iter().flatten() {
            if samples.len() < 4 {
                samples.push(x.clone());
            }
        }
        if let Some(o) = e["sites"].as_object() {
            for (k, v) in o {
                *sites.entry(k.clone()).or_insert(0) += v.as_u64().unwrap_or(0);
            }
        }
    }
    // group violations by signature
    found.sort_by_key(|j| j["run"].as_u64().unwrap_or(0));
    let mut by_sig: BTreeMap<String, Vec<Value>> = BTreeMap::new();
    for f in found {
        let s = signature(f["class"].as_str().unwrap_or(""), f["features"].as_str().unwrap_or(""));
        by_sig.entry(s).or_default().push(f);
    }
    let mut unlisted = 0usize;
    let mut replays = Vec::new();
    for (n, (sig, group)) in by_sig.iter().enumerate() {
        unlisted += group.len();
        if n >= 5 {
            continue;
        }
        let f = group.iter().min_by_key(|f| f["tape"].as_array().map(|a| a.len()).unwrap_or(0)).unwrap();
        let tape0: Vec<u32> = f["tape"].as_array().map(|a| a.iter().map(|x| x.as_u64().unwrap_or(0) as u32).collect()).unwrap_or_default();
        let hang = sig.starts_with("tracing.hang");
        // a hanging history is not re-executed in this process (its threads never come back)
        let (tape_min, used) = if hang { (tape0.clone(), 0) } else { minimise(&tape0, sig) };
        let detail = if hang {
            f["detail"].as_str().unwrap_or("").to_string()
        } else {
            let o = run(Tape::replay(tape_min.clone()));
            match &o.verdict {
                Some((_, _, d)) => format!("{d}; history: {}", history_text(&o)),
                None => f["detail"].as_str().unwrap_or("").to_string(),
            }
        };
        let dir = verif_dir().join("replays");
        let _ = std::fs::create_dir_all(&dir);
        let path = dir.join(format!("C20-{}-{}.json", seed, f["run"].as_u64().unwrap_or(0)));
        let j = json!({"property": "C20", "tier": tier, "seed": seed, "run_index": f["run"], "tape": tape_min, "violation": {"class": f["class"], "features": f["features"], "signature": sig, "detail": detail}, "sim_version": "threads-sim-1"});
        let _ = std::fs::write(&path, serde_json::to_string_pretty(&j).unwrap_or_default());
        println!("violation {sig} ({} runs, first run {}; tape {} -> {} choices after {used} candidate executions)", group.len(), f["run"], tape0.len(), tape_min.len());
        println!("  {detail}");
        println!("VIOLATION property=C20 replay={}", path.display());
        replays.push(path.display().to_string());
    }
    let wall = t0.elapsed().as_secs_f64();
    let runs = sum("runs");
    if samples.is_empty() {
        samples.push(json!(format!("seed {seed}, run indices 0..{total}")));
    }
    let ev = json!({
        "property_id": "C20",
        "tier": tier,
        "seed": seed,
        "level": "exploration",
        "coverage": {
            "evaluations": runs.max(1),
            "distinct_nontrivial": distinct_nt.len(),
            "distinct_schedules": distinct.len(),
            "rule": "One evaluation = one simulated run of 2-3 real OS threads, each executing a drawn sequence of <= 8 tracing_enabled operations, released one at a time by the baton scheduler (the tape decides who runs at every yield point: every API-call boundary and, in 3/4 of the runs, every access to the global atomic through the cfg-guarded hook). Distinct = distinct FNV-1a hashes of (workload, sequence of (thread, yield site) pairs); non-trivial = schedules in which some operation was preempted in mid-flight and an operation of another thread was invoked before it returned.",
            "samples": samples,
            "runs_per_hour": if wall > 0.0 { (runs as f64 / wall * 3600.0) as u64 } else { 0 },
            "operations": sum("ops"),
            "scheduling_decisions": sum("yields"),
            "preemptions_by_site": sites.iter().filter(|(k, _)| !k.starts_with("op.") && !k.starts_with("shape.")).map(|(k, v)| (k.clone(), *v)).collect::<BTreeMap<String, u64>>(),
            "operations_by_kind": sites.iter().filter(|(k, _)| k.starts_with("op.")).map(|(k, v)| (k.trim_start_matches("op.").to_string(), *v)).collect::<BTreeMap<String, u64>>(),
            "runs_by_subscriber_shape": sites.iter().filter(|(k, _)| k.starts_with("shape.")).map(|(k, v)| (k.trim_start_matches("shape.").to_string(), *v)).collect::<BTreeMap<String, u64>>(),
            "runs_with_hook_granularity": sum("fine_runs"),
            "runs_with_overlapping_operations": sum("overlaps"),
            "oracle": "per-thread override model + linearizability of the global boolean register (write/flip/read) over the recorded invoke/return stamps, accepted if linearizable under at least one of 12 deterministic variants of the unspecified own-thread side effects",
            "components": {"real_code": ["tracing-enabled (all functions and the GlobalEnable layer, real std thread_local!, real std AtomicBool behind the seam)", "tracing / tracing-core / tracing-subscriber (call-site interest cache, dispatchers, registry, per-layer filters) under the layer"], "stubs": ["the OS scheduler (replaced by the baton)", "the fmt output layer of chess-cli (replaced by a counting layer)"]},
            "exhaustive": false
        },
        "assumptions": ["sequential consistency of the baton-serialised execution; weaker-memory behaviours are outside this check", "the hook yields before every access to the global atomic, so a change that adds accesses is explored at that granularity"],
        "wall_s": wall,
        "violations": unlisted,
        "replays": replays,
    });
    let evdir = verif_dir().join("evidence");
    let _ = std::fs::create_dir_all(&evdir);
    let _ = std::fs::write(evdir.join("C20.json"), serde_json::to_string_pretty(&ev).unwrap_or_default());
    println!("C20 {tier}: {runs} runs, {} distinct schedules ({} with overlapping operations), {unlisted} violations, {wall:.1}s", distinct.len(), distinct_nt.len());
    if unlisted > 0 {
        1
    } else {
        0
    }
}

fn replay(path: &str) -> i32 {
    let Ok(s) = std::fs::read_to_string(path) else {
        eprintln!("cannot read {path}");
        return 2;
    };
    let Ok(j) = serde_json::from_str::<Value>(&s) else {
        eprintln!("{path} is not JSON");
        return 2;
    };
    if j["probe"].as_str() == Some("carried-token") {
        return match token_carried_to_another_thread() {
            Some(false) => {
                println!("replayed: tracing.override-carried-across-threads :: a saved override restored on another thread decides that thread's view");
                println!("VIOLATION property=C20 replay={path}");
                1
            }
            _ => {
                println!("replayed: no violation (a saved override cannot leave its thread)");
                0
            }
        };
    }
    let tape_vals: Vec<u32> = j["tape"].as_array().map(|a| a.iter().map(|x| x.as_u64().unwrap_or(0) as u32).collect()).unwrap_or_default();
    // the run happens on a helper thread so that a hanging history can be reported
    let limit: u64 = std::env::var("VERIF_RUN_TIMEOUT_S").ok().and_then(|s| s.parse::<u64>().ok()).unwrap_or(60);
    let (tx, rx) = std::sync::mpsc::channel();
    std::thread::spawn(move || {
        let _ = tx.send(run(Tape::replay(tape_vals)));
    });
    let o = match rx.recv_timeout(std::time::Duration::from_secs(limit)) {
        Ok(o) => o,
        Err(_) => {
            println!("replayed: tracing.hang :: the simulated threads did not finish within {limit} s");
            println!("VIOLATION property=C20 replay={path}");
            std::process::exit(1);
        }
    };
    match &o.verdict {
        Some((c, f, d)) => {
            println!("replayed: {} :: {d}; history: {}", signature(c, f), history_text(&o));
            println!("VIOLATION property=C20 replay={path}");
            1
        }
        None => {
            println!("replayed: no violation; history: {}", history_text(&o));
            0
        }
    }
}

fn detlog(seed: u64, start: u64, stride: u64, end: u64) -> i32 {
    let mut i = start;
    while i < end {
        let o = run(Tape::record(mix(seed), i));
        let mut h = tape::FNV0;
        tape::fnv(&mut h, history_text(&o).as_bytes());
        println!("{i} {:016x} {:016x} {}", schedule_hash(&o), h, o.verdict.is_some());
        i += stride;
    }
    0
}

// Can a saved override be carried to another thread?  Today the type is `!Send`, which rules
// it out at compile time.  If a change makes it `Send`, the autoref trick below picks the
// `Send` implementation and the carrying is actually done: thread A saves a Disabled
// override, thread B (no override of its own, global on) restores it and must still see
// "enabled" - otherwise B's override was produced by state saved on A.
struct Carrier<T>(std::cell::RefCell<Option<T>>, fn(T));
trait CarryIfSend {
    fn carry(&self) -> Option<bool>;
}
impl<T: Send + 'static> CarryIfSend for Carrier<T> {
    fn carry(&self) -> Option<bool> {
        let token = self.0.borrow_mut().take()?;
        let restore = self.1;
        Some(
            std::thread::spawn(move || {
                restore(token);
                tracing_enabled::is_enabled()
            })
            .join()
            .unwrap(),
        )
    }
}
trait CarryFallback {
    fn carry(&self) -> Option<bool>;
}
impl<T> CarryFallback for &Carrier<T> {
    fn carry(&self) -> Option<bool> {
        None
    }
}

/// None: the token cannot leave its thread (as today).  Some(view): it can, and `view` is what
/// the receiving thread sees after restoring it.
fn token_carried_to_another_thread() -> Option<bool> {
    std::thread::spawn(|| {
        tracing_enabled::enable();
    })
    .join()
    .unwrap();
    std::thread::spawn(|| {
        tracing_enabled::local_disable();
        let c = Carrier(std::cell::RefCell::new(Some(tracing_enabled::local_take())), tracing_enabled::restore);
        // method resolution: `Carrier<T>: CarryIfSend` (by value receiver &self) wins when T: Send,
        // otherwise the fallback implemented for `&Carrier<T>` is found one autoref later
        (&c).carry()
    })
    .join()
    .unwrap()
}

/// self-test of the oracle on hand-written histories (run by `./check --setup`)
fn selftest() -> i32 {
    let ev = |tid: usize, idx: usize, op: OpKind, inv: u64, ret: u64, res: Option<bool>| Event { tid, idx, op, inv, ret, res, token: usize::MAX, panicked: false };
    // 1. sequential: disable then a read on another thread sees false
    let h1 = vec![ev(0, 0, OpKind::Disable, 1, 2, None), ev(1, 0, OpKind::IsEnabled, 3, 4, Some(false))];
    // 2. stale read: the read starts after disable returned but still sees true
    let h2 = vec![ev(0, 0, OpKind::Disable, 1, 2, None), ev(1, 0, OpKind::IsEnabled, 3, 4, Some(true))];
    // 3. overlapping toggle and read: either value is fine
    let h3a = vec![ev(0, 0, OpKind::Toggle, 1, 4, None), ev(1, 0, OpKind::IsEnabled, 2, 3, Some(true))];
    let h3b = vec![ev(0, 0, OpKind::Toggle, 1, 4, None), ev(1, 0, OpKind::IsEnabled, 2, 3, Some(false))];
    // 4. lost update: two toggles, final value unchanged... from true two flips give true: fine; one lost gives false
    let h4 = vec![ev(0, 0, OpKind::Toggle, 1, 4, None), ev(1, 0, OpKind::Toggle, 2, 3, None)];
    // 5. own override must win over the global
    let h5 = vec![ev(0, 0, OpKind::LocalDisable, 1, 2, None), ev(1, 0, OpKind::Enable, 3, 4, None), ev(0, 1, OpKind::IsEnabled, 5, 6, Some(true))];
    // 6. another thread's local_disable must not leak
    let h6 = vec![ev(0, 0, OpKind::LocalDisable, 1, 2, None), ev(1, 0, OpKind::IsEnabled, 3, 4, Some(false))];
    let cases: Vec<(&str, Vec<Event>, usize, bool, bool, bool)> = vec![
        ("sequential write/read", h1, 2, true, false, true),
        ("stale read", h2, 2, true, false, false),
        ("overlap reads old", h3a, 2, true, false, true),
        ("overlap reads new", h3b, 2, true, false, true),
        ("two toggles keep the value", h4.clone(), 2, true, true, true),
        ("lost toggle", h4, 2, true, false, false),
        ("override ignored", h5, 2, true, true, false),
        ("override leaked to another thread", h6, 2, true, true, false),
    ];
    for (name, h, n, initial, fin, ok) in cases {
        let v = judge(&h, n, initial, fin);
        if v.is_none() != ok {
            eprintln!("selftest FAILED: history '{name}' judged {:?}, expected {}", v, if ok { "accepted" } else { "rejected" });
            return 2;
        }
    }
    println!("selftest: linearizability oracle ok on 8 hand-written histories");
    0
}

fn main() {
    // panics inside simulated operations are caught and judged; keep the default hook quiet
    std::panic::set_hook(Box::new(|_| {}));
    let a: Vec<String> = std::env::args().collect();
    let seed = std::env::var("VERIF_SEED").ok().and_then(|s| s.trim().parse::<u64>().ok()).unwrap_or(DEFAULT_SEED);
    let code = match a.get(1).map(|s| s.as_str()) {
        Some("check") => check(a.get(2).map(|s| s.as_str()).unwrap_or("quick"), seed),
        Some("worker") if a.len() >= 6 => worker(a[2].parse().unwrap_or(0), a[3].parse().unwrap_or(0), a[4].parse().unwrap_or(1), a[5].parse().unwrap_or(0)),
        Some("replay") if a.len() >= 3 => replay(&a[2]),
        Some("selftest") => selftest(),
        Some("detlog") if a.len() >= 6 => detlog(a[2].parse().unwrap_or(0), a[3].parse().unwrap_or(0), a[4].parse().unwrap_or(1), a[5].parse().unwrap_or(0)),
        _ => {
            eprintln!("usage: threads-sim check <quick|thorough> | replay <file>");
            2
        }
    };
    std::process::exit(code);
}
