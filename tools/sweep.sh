#!/bin/bash
# Run every check of one tier with a given seed on PRIVATE copies of /repo's HEAD and of the
# simulator (so /repo and /verif can be worked on meanwhile).  Used to look for rare alarms
# on the unchanged tree under other seeds.   usage: tools/sweep.sh <scratch-dir> <quick|thorough> <seed>
set -u
W="${1:?scratch dir}"; TIER="${2:-quick}"; SEED="${3:-1}"
HERE="$(cd "$(dirname "$0")/.." && pwd)"
mkdir -p "$W"; rm -rf "$W/repo" "$W/verif"
git clone -q /repo "$W/repo" && cp /repo/Cargo.lock "$W/repo/"
mkdir -p "$W/verif"; cp -r "$HERE/sim" "$HERE/sim-threads" "$HERE/known_findings.json" "$W/verif/"
rm -rf "$W/verif/sim/target" "$W/verif/sim-threads/target"
grep -rl '/repo/' "$W/verif/sim" "$W/verif/sim-threads" --include=Cargo.toml | xargs sed -i "s|/repo/|$W/repo/|g"
export VERIF_DIR="$W/verif" CARGO_NET_OFFLINE=true VERIF_SEED="$SEED"
(cd "$W/verif/sim" && cargo build --release --offline >/dev/null 2>&1 && cargo build --profile shipped --offline >/dev/null 2>&1) || { echo "build failed"; exit 2; }
(cd "$W/verif/sim-threads" && cargo build --release --offline >/dev/null 2>&1) || { echo "build failed"; exit 2; }
for p in C01 C02 C03 C04 C05 C06 C07 C10 C11 C12 C13 C15 C17 C20; do
  if [ "$p" = C20 ]; then o=$("$W/verif/sim-threads/target/release/threads-sim" check "$TIER" 2>&1); rc=$?
  else o=$("$W/verif/sim/target/release/chess-sim" check $p "$TIER" 2>&1); rc=$?; fi
  echo "seed=$SEED $p exit=$rc :: $(echo "$o" | tail -1)"
  [ $rc -ne 0 ] && echo "$o" | grep -E "^(violation|  |VIOLATION|note|harness)" | cut -c1-400 | head -12
done
echo "sweep done"
