#!/bin/bash
# Confirm and try every delivered change of one sub-agent round, one after the other.
# usage: MUT_WT=/tmp/mutN MUT_OUT=/tmp/mutN-out tools/round.sh <ID>...   (results appended to $MUT_OUT/results.log)
set -u
cd /verif
for id in "$@"; do
  for x in A B; do
    [ -f "$MUT_OUT/$id/$x.patch.diff" ] || continue
    {
      echo "#### $id $x"
      tools/confirm_mutant.sh "$id" "$x"
      tools/try_mutant.sh "$MUT_OUT/$id/$x.patch.diff" "$id"
    } >> "$MUT_OUT/results.log" 2>&1
  done
done
echo "#### round.sh done: $*" >> "$MUT_OUT/results.log"
