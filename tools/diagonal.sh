#!/bin/bash
# Regression of the seeded changes: every change against the quick tier of its OWN
# property's check (full budget, default seed), on PRIVATE copies of /repo and the
# simulator workspaces.  usage: tools/diagonal.sh <scratch-dir> [shard] [nshards]
# writes <scratch-dir>/diagonal.tsv: change, check, exit code, first signatures
set -u
W="${1:?scratch dir}"; SH="${2:-0}"; NS="${3:-1}"
HERE="$(cd "$(dirname "$0")/.." && pwd)"
mkdir -p "$W"; rm -rf "$W/repo" "$W/verif"
git clone -q /repo "$W/repo" && cp /repo/Cargo.lock "$W/repo/"
mkdir -p "$W/verif"; cp -r "$HERE/sim" "$HERE/sim-threads" "$HERE/known_findings.json" "$W/verif/" 2>/dev/null
rm -rf "$W/verif/sim/target" "$W/verif/sim-threads/target"
grep -rl '/repo/' "$W/verif/sim" "$W/verif/sim-threads" --include=Cargo.toml | xargs sed -i "s|/repo/|$W/repo/|g"
export VERIF_DIR="$W/verif" CARGO_NET_OFFLINE=true
out="$W/diagonal.tsv"; : > "$out"
build() { if [ "$1" = C20 ]; then (cd "$W/verif/sim-threads" && cargo build --release --offline >/dev/null 2>&1); else (cd "$W/verif/sim" && cargo build --release --offline >/dev/null 2>&1 && cargo build --profile shipped --offline >/dev/null 2>&1); fi; }
i=0
for d in "$HERE"/seeded/*/; do
  k=$(basename "$d"); p=${k%%-*}
  # DIAG_ONLY=<extended regexp>: only the changes whose id matches
  if [ -n "${DIAG_ONLY:-}" ] && ! echo "$k" | grep -Eq -- "$DIAG_ONLY"; then continue; fi
  i=$((i+1)); [ $((i % NS)) -eq "$SH" ] || continue
  git -C "$W/repo" apply "$d/patch.diff" || { printf '%s\tAPPLY-FAILED\n' "$k" >> "$out"; continue; }
  if build $p; then
    if [ "$p" = C20 ]; then o=$("$W/verif/sim-threads/target/release/threads-sim" check quick 2>&1); rc=$?
    else o=$("$W/verif/sim/target/release/chess-sim" check $p quick 2>&1); rc=$?; fi
    sigs=$(echo "$o" | grep '^violation ' | sed -E 's/^violation ([^ ]+).*/\1/' | sort -u | head -3 | tr '\n' ' ')
    printf '%s\t%s\t%s\t%s\n' "$k" "$p" "$rc" "$sigs" >> "$out"
  else printf '%s\tBUILD-FAILED\n' "$k" >> "$out"; fi
  git -C "$W/repo" checkout -q -- .
done
echo done >> "$out"
