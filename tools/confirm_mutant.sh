#!/bin/bash
# Confirm a seeded change in its scratch worktree: existing tests pass with it,
# the demonstration fails with it and passes without it.
# usage: tools/confirm_mutant.sh <ID> <A|B>
set -u
id=$1; x=$2
wt=${MUT_WT:-/tmp/mut}/$id; out=${MUT_OUT:-/tmp/mut-out}/$id
crate=$(head -1 $out/$x.demo.rs | sed -E 's|^// *crate: *([a-z-]+).*|\1|')
lx=$(echo $x | tr 'A-Z' 'a-z')
cd $wt || exit 2
git checkout -q -- . ; rm -f */tests/demo_*.rs
mkdir -p $crate/tests; cp $out/$x.demo.rs $crate/tests/demo_$lx.rs
# without the change
cargo test -p $crate --offline --test demo_$lx >$out/$x.clean.log 2>&1; clean=$?
git apply $out/$x.patch.diff || { echo "$id $x: patch does not apply"; exit 2; }
cargo test -p $crate --offline --test demo_$lx >$out/$x.mut.log 2>&1; mut=$?
rm -f $crate/tests/demo_$lx.rs; rmdir $crate/tests 2>/dev/null
cargo test --workspace --offline >$out/$x.suite.log 2>&1; suite=$?
nfail=$(grep -c "FAILED\|failed" $out/$x.suite.log)
git checkout -q -- .
echo "$id $x: demo clean exit=$clean (want 0), demo with change exit=$mut (want !=0), existing suite with change exit=$suite (want 0)"
