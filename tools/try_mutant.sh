#!/bin/bash
# Sensitivity protocol helper: apply a patch to /repo's working tree, run the
# quick checks of the given properties, and restore the tree whatever happens.
# usage: tools/try_mutant.sh <patch.diff> <ID> [<ID>...]     (env VERIF_RUNS etc. pass through)
set -u
patch="$(readlink -f "$1")"; shift
cd /verif
if ! git -C /repo diff --quiet; then echo "refusing: /repo has uncommitted changes" >&2; exit 2; fi
# evidence written while /repo is modified must not survive: keep the clean files aside
EVBAK=$(mktemp -d /verif/sim/target/evbak.XXXXXX); cp -a /verif/evidence/. "$EVBAK"/ 2>/dev/null
restore() { git -C /repo checkout -- . ; rm -rf /verif/evidence; mkdir -p /verif/evidence; cp -a "$EVBAK"/. /verif/evidence/ 2>/dev/null; rm -rf "$EVBAK"; }
trap restore EXIT
git -C /repo apply "$patch" || { echo "patch does not apply" >&2; exit 2; }
for p in "$@"; do
  start=$(date +%s)
  out=$(./check "$p" quick 2>&1); rc=$?
  end=$(date +%s)
  echo "== $p exit=$rc ($((end-start))s)"
  echo "$out" | grep -E "^(violation|VIOLATION|KNOWN|C[0-9]+ quick|harness|note)" | cut -c1-260 | head -8
done
