#!/usr/bin/env python3
"""Store a confirmed seeded change under /verif/seeded/<prop>-<letter>/.
usage: store_mutant.py <out-dir> <prop> <A|B> <new-letter> <round> <outcome> <change> <needs> <result> [checks]"""
import json, os, shutil, sys
out, prop, src, letter, rnd, outcome, change, needs, result = sys.argv[1:10]
checks = sys.argv[10] if len(sys.argv) > 10 else prop
d = f"/verif/seeded/{prop}-{letter}"
os.makedirs(d, exist_ok=False)
shutil.copy(f"{out}/{prop}/{src}.patch.diff", f"{d}/patch.diff")
shutil.copy(f"{out}/{prop}/{src}.demo.rs", f"{d}/demo.rs")
if os.path.exists(f"{out}/{prop}/NOTES.md"):
    shutil.copy(f"{out}/{prop}/NOTES.md", f"{d}/NOTES.md")
meta = {
    "id": f"{prop}-{letter}", "round": int(rnd), "breaks_property": prop,
    "source": f"independent sub-agent given only the property text, a scratch worktree of /repo and a list of the mechanisms already used in rounds 1-{int(rnd)-1} (nothing from /verif)",
    "change": change, "needs_to_manifest": needs,
    "confirmed": "tools/confirm_mutant.sh in the scratch worktree: demonstration passes on the unchanged tree, fails with the change; `cargo test --workspace --offline` passes with the change",
    "demo": open(f"{d}/demo.rs").readline().strip(),
    "checks_run": f"tools/try_mutant.sh seeded/{prop}-{letter}/patch.diff {checks}",
    "result": result, "outcome": outcome, "base_commit": __import__("subprocess").check_output(["git","-C","/repo","rev-parse","--short","HEAD"],text=True).strip(),
}
json.dump(meta, open(f"{d}/meta.json", "w"), indent=1, ensure_ascii=False)
print("stored", d)
