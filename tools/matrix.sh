#!/bin/bash
# Cross matrix: every seeded change x every check, on PRIVATE copies of /repo and the
# simulator workspaces, so that /repo and /verif stay untouched while it runs.
# usage: tools/matrix.sh <scratch-dir> [runs-divisor]     (writes <scratch-dir>/matrix.tsv)
set -u
W="${1:?scratch dir}"; DIV="${2:-5}"
HERE="$(cd "$(dirname "$0")/.." && pwd)"
mkdir -p "$W"; rm -rf "$W/repo" "$W/verif"
git clone -q /repo "$W/repo" && cp /repo/Cargo.lock "$W/repo/"
mkdir -p "$W/verif"; cp -r "$HERE/sim" "$HERE/sim-threads" "$HERE/known_findings.json" "$W/verif/" 2>/dev/null
rm -rf "$W/verif/sim/target" "$W/verif/sim-threads/target"
grep -rl '/repo/' "$W/verif/sim" "$W/verif/sim-threads" --include=Cargo.toml | xargs sed -i "s|/repo/|$W/repo/|g"
export VERIF_DIR="$W/verif" CARGO_NET_OFFLINE=true
PROPS="C01 C02 C03 C04 C05 C06 C07 C10 C11 C12 C13 C15 C17 C20"
declare -A RUNS=( [C01]=300000 [C02]=120000 [C03]=300000 [C04]=200000 [C05]=250000 [C06]=400000 [C07]=16000 [C10]=300000 [C11]=4000 [C12]=4000 [C13]=2400 [C15]=100000 [C17]=16 [C20]=200000 )
out="$W/matrix.tsv"; : > "$out"
build() { (cd "$W/verif/sim" && cargo build --release --offline >/dev/null 2>&1 && cargo build --profile shipped --offline >/dev/null 2>&1) && (cd "$W/verif/sim-threads" && cargo build --release --offline >/dev/null 2>&1); }
runall() { # $1 = label
  for p in $PROPS; do
    n=$(( ${RUNS[$p]} / DIV )); [ "$p" = C17 ] && n=16
    if [ "$p" = C20 ]; then o=$(VERIF_RUNS=$n "$W/verif/sim-threads/target/release/threads-sim" check quick 2>&1); rc=$?
    else o=$(VERIF_RUNS=$n "$W/verif/sim/target/release/chess-sim" check $p quick 2>&1); rc=$?; fi
    sigs=$(echo "$o" | grep '^violation ' | sed -E 's/^violation ([^ ]+).*/\1/' | sort -u | head -4 | tr '\n' ' ')
    printf '%s\t%s\t%s\t%s\n' "$1" "$p" "$rc" "$sigs" >> "$out"
  done
}
build || { echo "build failed" >&2; exit 2; }
runall clean
for d in "$HERE"/seeded/*/; do
  k=$(basename "$d")
  # MATRIX_ONLY=<extended regexp>: only the changes whose id matches, e.g. '-[K-N]$'
  if [ -n "${MATRIX_ONLY:-}" ] && ! echo "$k" | grep -Eq -- "$MATRIX_ONLY"; then continue; fi
  git -C "$W/repo" apply "$d/patch.diff" || { printf '%s\tAPPLY-FAILED\n' "$k" >> "$out"; continue; }
  if build; then runall "$k"; else printf '%s\tBUILD-FAILED\n' "$k" >> "$out"; fi
  git -C "$W/repo" checkout -q -- .
done
echo done >> "$out"
