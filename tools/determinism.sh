#!/bin/bash
# Determinism protocol (DESIGN.md section 9): N run indices per scenario, executed
# twice in separate processes and at several process counts; per-run observation
# hashes (tape hash + hash of every observation) must be identical.
# usage: tools/determinism.sh [N] [props...]
set -u
N="${1:-2000}"; shift || true
PROPS="${*:-C01 C02 C03 C04 C05 C06 C07 C10 C11 C12 C13 C15 C17 C20}"
SIM=/verif/sim/target/release/chess-sim
THR=/verif/sim-threads/target/release/threads-sim
OUT=$(mktemp -d /verif/sim/target/det.XXXXXX)
fail=0
for p in $PROPS; do
  n=$N
  case $p in C11|C12|C13) n=$((N/10));; C17) n=2;; C07) n=$((N/4));; esac
  run() { # $1 = number of processes, $2 = tag
    local w=$1 tag=$2
    for ((i=0;i<w;i++)); do
      if [ "$p" = C20 ]; then $THR detlog 20261003 $i $w $n > $OUT/$p.$tag.$i &
      else $SIM detlog $p quick 20261003 $i $w $n > $OUT/$p.$tag.$i & fi
    done
    wait
    sort -n $OUT/$p.$tag.* > $OUT/$p.$tag.all
  }
  run 1 a; run 4 b; run 16 c
  if cmp -s $OUT/$p.a.all $OUT/$p.b.all && cmp -s $OUT/$p.a.all $OUT/$p.c.all; then
    echo "$p: $(wc -l < $OUT/$p.a.all) runs identical across 1, 4 and 16 processes"
  else
    echo "$p: DIVERGENCE"; diff $OUT/$p.a.all $OUT/$p.c.all | head -5; fail=1
  fi
done
rm -rf "$OUT"
exit $fail
